"""Independent bit-serial BLE link-layer reference ("phone model" + encoder), written from the
Bluetooth Core specification (Vol 6 Part B: 2.1 packet format, 3.1.1 CRC, 3.2 whitening).
Shares nothing with circuitpython_nrf24l01/fake_ble.py.

The nRF24L01 shifts every byte out MSBit first and its address MSByte first; BLE sends LSBit
first.  `onair_bits()` produces the raw bit sequence a receiver sees; everything else works on
that sequence in BLE order."""

ACCESS_ADDRESS = 0x8E89BED6
CHANNEL_OF_RF_CH = {2: 37, 26: 38, 80: 39}


def onair_bits(addr_reg_bytes, payload):
    """bits in transmission order for an nRF24L01 packet without PCF/CRC.
    addr_reg_bytes: address as stored in the register (byte 0 = LSByte)."""
    bits = []
    for b in reversed(bytes(addr_reg_bytes)):
        bits += [(b >> (7 - i)) & 1 for i in range(8)]
    for b in bytes(payload):
        bits += [(b >> (7 - i)) & 1 for i in range(8)]
    return bits


def bits_of_bytes_lsb_first(data):
    out = []
    for b in bytes(data):
        out += [(b >> i) & 1 for i in range(8)]
    return out


def bytes_of_bits_lsb_first(bits):
    out = bytearray()
    for i in range(0, len(bits) - len(bits) % 8, 8):
        v = 0
        for j in range(8):
            v |= bits[i + j] << j
        out.append(v)
    return bytes(out)


def whiten_bits(bits, channel_index):
    """LFSR x^7 + x^4 + 1; position 0 = 1, positions 1..6 = channel index MSB..LSB"""
    reg = [1] + [(channel_index >> (5 - i)) & 1 for i in range(6)]
    out = []
    for b in bits:
        o = reg[6]
        out.append(b ^ o)
        reg = [o, reg[0], reg[1], reg[2], reg[3] ^ o, reg[4], reg[5]]
    return out


def crc24_bits(bits, init=0x555555):
    """CRC-24 x^24+x^10+x^9+x^6+x^4+x^3+x+1 over bits in transmission order; returns the 24 CRC
    bits in transmission order (position 23 first)."""
    reg = [(init >> i) & 1 for i in range(24)]
    for b in bits:
        fb = b ^ reg[23]
        new = [fb] + reg[:23]
        for tap in (1, 3, 4, 6, 9, 10):
            new[tap] ^= fb
        reg = new
    return [reg[23 - i] for i in range(24)]


def parse_ad(data):
    """list of (type, bytes) AD structures; None if malformed"""
    out = []
    i = 0
    while i < len(data):
        ln = data[i]
        if ln == 0 or i + 1 + ln > len(data):
            return None
        out.append((data[i + 1], bytes(data[i + 2:i + 1 + ln])))
        i += 1 + ln
    return out


def phone_decode(addr_reg_bytes, payload, rf_ch):
    """what a BLE scanner tuned to the channel of rf_ch recovers from an nRF24L01 packet"""
    res = {"ok": False}
    ch = CHANNEL_OF_RF_CH.get(rf_ch)
    if ch is None:
        res["why"] = "RF_CH %d is not a BLE advertising channel" % rf_ch
        return res
    bits = onair_bits(addr_reg_bytes, payload)
    aa = bits_of_bytes_lsb_first(ACCESS_ADDRESS.to_bytes(4, "little"))
    if bits[:32] != aa:
        res["why"] = "access address mismatch"
        return res
    pdu_bits = whiten_bits(bits[32:], ch)
    raw = bytes_of_bits_lsb_first(pdu_bits)
    res["header"] = raw[0]
    res["length"] = raw[1] & 0x3F
    n = 2 + res["length"]
    if n + 3 > len(raw):
        res["why"] = "length byte %d does not fit the captured bytes" % res["length"]
        return res
    crc = crc24_bits(pdu_bits[: n * 8])
    res["crc_ok"] = crc == pdu_bits[n * 8:(n + 3) * 8]
    res["mac"] = raw[2:8]
    res["ad_raw"] = raw[8:n]
    res["ad"] = parse_ad(raw[8:n])
    res["ok"] = bool(res["crc_ok"])
    if not res["ok"]:
        res["why"] = "CRC-24 mismatch"
    return res


def encode(mac, ads, channel_index, header=0x42, pad=b"", total=32, length_override=None,
           corrupt_crc=False):
    """nRF24L01 payload bytes (as found in a receiving radio's RX FIFO) of an advertisement"""
    body = bytes(mac) + b"".join(bytes([len(d) + 1, t]) + bytes(d) for t, d in ads)
    ln = len(body) if length_override is None else length_override
    pdu = bytes([header, ln]) + body
    bits = bits_of_bytes_lsb_first(pdu)
    crc = crc24_bits(bits)
    if corrupt_crc:
        crc[5] ^= 1
    allbits = bits + crc
    w = whiten_bits(allbits, channel_index)
    # continue the whitening sequence over the padding so the whole capture is consistent
    wire = bytes_of_bits_lsb_first(w)
    out = bytes(int("{:08b}".format(b)[::-1], 2) for b in wire)
    out = (out + bytes(pad) + bytes(total))[:total]
    return out


def raw_ad(*items):
    """AD area from raw (len, type, data) triples, for adversarial structures"""
    return b"".join(bytes([ln, t]) + bytes(d) for ln, t, d in items)


def encode_raw(mac, ad_area, channel_index, header=0x42, pad=b"", total=32, length_override=None):
    body = bytes(mac) + bytes(ad_area)
    ln = len(body) if length_override is None else length_override
    pdu = bytes([header, ln & 0xFF]) + body
    bits = bits_of_bytes_lsb_first(pdu)
    allbits = bits + crc24_bits(bits)
    wire = bytes_of_bits_lsb_first(whiten_bits(allbits, channel_index))
    out = bytes(int("{:08b}".format(b)[::-1], 2) for b in wire)
    return (out + bytes(pad) + bytes(total))[:total]


# service data encodings (Bluetooth SIG assigned numbers / Eddystone-URL)
def temperature_ad(hundredths):
    v = hundredths & 0xFFFFFF
    return (0x16, bytes([0x09, 0x18, v & 0xFF, (v >> 8) & 0xFF, (v >> 16) & 0xFF, 0xFE]))


def battery_ad(pct):
    return (0x16, bytes([0x0F, 0x18, pct & 0xFF]))


URL_PREFIX = ["http://www.", "https://www.", "http://", "https://"]
URL_SUFFIX = [".com/", ".org/", ".edu/", ".net/", ".info/", ".biz/", ".gov/",
              ".com", ".org", ".edu", ".net", ".info", ".biz", ".gov"]


def url_encode(url):
    for i, p in enumerate(URL_PREFIX):
        if url.startswith(p):
            out = bytes([i])
            rest = url[len(p):]
            break
    else:
        return None
    body = bytearray()
    j = 0
    while j < len(rest):
        for k, sfx in enumerate(URL_SUFFIX):
            if rest.startswith(sfx, j):
                body.append(k)
                j += len(sfx)
                break
        else:
            body.append(ord(rest[j]))
            j += 1
    return out + bytes(body)


def url_ad(url, tx_power):
    enc = url_encode(url)
    return (0x16, bytes([0xAA, 0xFE, 0x10, tx_power & 0xFF]) + enc)
