"""Reference configuration model for RF24 (DESIGN §3.3), written from
docs/core_api/*.rst and the nRF24L01+ register map.  Shares no code with the driver.

State = expected register file + CE + the user's pipe-0 reading address.
`alternatives(op)` returns the admitted outcomes [(exception-name | None, state')].
Ops are JSON-friendly lists: [name, arg...]; byte strings are given as "hex:..".
"""
import copy

PA_BITS = {-18: 0, -12: 1, -6: 2, 0: 3}
REGS1 = [0, 1, 2, 3, 4, 5, 6, 0x11, 0x12, 0x13, 0x14, 0x15, 0x16, 0x1C, 0x1D]
ADDR_REGS = [0x0A, 0x0B, 0x0C, 0x0D, 0x0E, 0x0F, 0x10]
ORDER = [0, 1, 2, 3, 4, 5, 6, 0x0A, 0x0B, 0x0C, 0x0D, 0x0E, 0x0F, 0x10,
         0x11, 0x12, 0x13, 0x14, 0x15, 0x16, 0x1C, 0x1D]
REG_NAMES = {0: "CONFIG", 1: "EN_AA", 2: "EN_RXADDR", 3: "SETUP_AW", 4: "SETUP_RETR",
             5: "RF_CH", 6: "RF_SETUP", 0x0A: "RX_ADDR_P0", 0x0B: "RX_ADDR_P1",
             0x0C: "RX_ADDR_P2", 0x0D: "RX_ADDR_P3", 0x0E: "RX_ADDR_P4",
             0x0F: "RX_ADDR_P5", 0x10: "TX_ADDR", 0x11: "RX_PW_P0", 0x12: "RX_PW_P1",
             0x13: "RX_PW_P2", 0x14: "RX_PW_P3", 0x15: "RX_PW_P4", 0x16: "RX_PW_P5",
             0x1C: "DYNPD", 0x1D: "FEATURE"}


def unhex(x):
    if isinstance(x, str) and x.startswith("hex:"):
        return bytes.fromhex(x[4:])
    if isinstance(x, list):
        return [unhex(i) for i in x]
    return x


class State:
    def __init__(self):
        # documented defaults after RF24() (basic_api / configure_api)
        self.r = {0: 0x0C,  # CRC 2 bytes, all IRQ enabled, powered down, TX role
                  1: 0x3F, 2: 0x00, 3: 0x03, 4: 0x5F, 5: 76, 6: 0x07,
                  0x11: 32, 0x12: 32, 0x13: 32, 0x14: 32, 0x15: 32, 0x16: 32,
                  0x1C: 0x3F, 0x1D: 0x05}
        self.a = {0x0A: bytearray(b"\xE7" * 5), 0x0B: bytearray(b"\xC2" * 5),
                  0x0C: bytearray(b"\xC3"), 0x0D: bytearray(b"\xC4"),
                  0x0E: bytearray(b"\xC5"), 0x0F: bytearray(b"\xC6"),
                  0x10: bytearray(b"\xE7" * 5)}
        self.ce = False
        self.user0 = None
        self.cfg_mask = 0xFF  # CONFIG bits that are judged (non-plus carrier path narrows it)
        # EN_CRC was written 0 while EN_AA forced it to 1 (A5): whether the forced bit is
        # latched by a later read-modify-write is chip-dependent -> don't care until the
        # next crc assignment
        self.crc_dc = False
        self.carrier_dirty = None  # saved pre-carrier state (non-plus)

    def copy(self):
        return copy.deepcopy(self)

    def cfg_bytes(self):
        out = bytearray()
        for reg in ORDER:
            if reg in self.a:
                out += self.a[reg]
            else:
                v = self.r[reg]
                if reg == 0 and self.r[1]:
                    v |= 0x08  # EN_CRC forced by EN_AA (A5)
                out.append(v)
        return bytes(out)

    # derived getter values ------------------------------------------------
    def getters(self):
        r = self.r
        rf = r[6]
        dr = 250 if rf & 0x20 else (2 if rf & 0x08 else 1)
        cfg = r[0] | (0x08 if r[1] else 0)
        crc = 0 if not cfg & 0x08 else (2 if cfg & 0x04 else 1)
        g = {
            "channel": r[5], "data_rate": dr, "pa_level": (3 - ((rf >> 1) & 3)) * -6,
            "is_lna_enabled": bool(rf & 1), "crc": crc, "address_length": (r[3] & 3) + 2,
            "ard": (r[4] >> 4) * 250 + 250, "arc": r[4] & 0x0F,
            "get_auto_retries": ((r[4] >> 4) * 250 + 250, r[4] & 0x0F),
            "auto_ack": r[1], "dynamic_payloads": r[0x1C],
            "payload_length": r[0x11],
            "ack": bool((r[0x1D] & 6) == 6 and (r[1] & r[0x1C] & 1)),
            "allow_ask_no_ack": bool(r[0x1D] & 1),
            "power": bool(r[0] & 2),
            "listen": bool(r[0] & 2) and bool(r[0] & 1),
        }
        for p in range(6):
            g["get_auto_ack:%d" % p] = bool(r[1] & (1 << p))
            g["get_dynamic_payloads:%d" % p] = bool(r[0x1C] & (1 << p))
            g["get_payload_length:%d" % p] = r[0x11 + p]
            g["address:%d" % p] = (bytes(self.a[0x0A + p]) if p < 2
                                   else bytes(self.a[0x0A + p]) + bytes(self.a[0x0B][1:]))
        g["address:-1"] = bytes(self.a[0x10])
        return g


def _bitmask_form(cur, val):
    """auto_ack / dynamic_payloads value forms -> new 6-bit mask, or None if invalid"""
    if isinstance(val, bool):
        return 0x3F if val else 0
    if isinstance(val, int):
        return val & 0x3F
    if isinstance(val, (list, tuple)):
        m = cur
        for i, v in enumerate(val):
            if i < 6 and v >= 0:
                m = (m & ~(1 << i)) | (bool(v) << i)
        return m
    return None


def alternatives(s, op, plus=True):
    """list of admitted (exception name | None, new state)"""
    name = op[0]
    args = [unhex(a) for a in op[1:]]
    n = s.copy()
    r = n.r
    same = [(None, n)]

    def err(e):
        return [(e, s.copy())]

    if name == "channel":
        v = args[0]
        if not 0 <= int(v) <= 125:
            return err("ValueError")
        r[5] = int(v)
        return same
    if name == "data_rate":
        v = args[0]
        if v not in (1, 2, 250):
            return err("ValueError")
        r[6] = (r[6] & ~0x28) | {1: 0, 2: 0x08, 250: 0x20}[v]
        return same
    if name == "pa_level":
        v = args[0]
        lna = True
        if isinstance(v, (list, tuple)):
            v, lna = v[0], bool(v[1])
        if v not in PA_BITS or isinstance(v, bool):
            dflt = s.copy()
            dflt.r[6] = (dflt.r[6] & 0xF8) | 0x07
            return [("ValueError", s.copy()), (None, dflt)]  # code vs. docs
        r[6] = (r[6] & 0xF8) | (PA_BITS[v] << 1) | int(lna)
        return same
    if name == "crc":
        v = int(args[0])
        outs = []
        for cl in ({max(0, min(2, v)), min(2, abs(v))} if v < 0 else {min(2, v)}):
            m = s.copy()
            m.r[0] = (m.r[0] & ~0x0C) | {0: 0, 1: 0x08, 2: 0x0C}[cl]
            m.crc_dc = bool(cl == 0 and m.r[1])
            outs.append((None, m))
        return outs
    if name == "address_length":
        v = args[0]
        r[3] = (v - 2) if 3 <= v <= 5 else 0
        return same
    if name == "ard":
        v = max(250, min(args[0], 4000))
        r[4] = (r[4] & 0x0F) | (((v - 250) // 250) << 4)
        return same
    if name == "arc":
        r[4] = (r[4] & 0xF0) | max(0, min(int(args[0]), 15))
        return same
    if name == "set_auto_retries":
        d = max(250, min(args[0], 4000))
        r[4] = (((d - 250) // 250) << 4) | max(0, min(int(args[1]), 15))
        return same
    if name == "auto_ack":
        m = _bitmask_form(r[1], args[0])
        if m is None:
            return err("ValueError")
        r[1] = m
        return same
    if name == "set_auto_ack":
        en, p = args
        if p is None:
            r[1] = 0x3F if en else 0
        elif 0 <= p <= 5:
            r[1] = (r[1] & ~(1 << p)) | (bool(en) << p)
        else:
            return err("IndexError")
        return same
    if name == "dynamic_payloads":
        m = _bitmask_form(r[0x1C], args[0])
        if m is None:
            return err("ValueError")
        r[0x1C] = m
        r[0x1D] = (r[0x1D] & 3) | (4 if m else 0)
        return same
    if name == "set_dynamic_payloads":
        en, p = args
        if p is None:
            m = 0x3F if en else 0
        elif 0 <= p <= 5:
            m = (r[0x1C] & ~(1 << p)) | (bool(en) << p)
        else:
            return err("IndexError")
        r[0x1C] = m
        r[0x1D] = (r[0x1D] & 3) | (4 if m else 0)
        return same
    if name == "payload_length":
        v = args[0]
        if isinstance(v, int):
            for p in range(6):
                r[0x11 + p] = max(1, min(32, v))
        elif isinstance(v, (list, tuple)):
            for i, x in enumerate(v):
                if i < 6 and x > 0:
                    r[0x11 + i] = min(32, x)
        else:
            return err("ValueError")
        return same
    if name == "set_payload_length":
        ln, p = args
        if p is None:
            for q in range(6):
                r[0x11 + q] = max(1, min(32, ln))
        elif 0 <= p <= 5:
            r[0x11 + p] = max(1, min(32, ln))
        else:
            return err("IndexError")
        return same
    if name in ("print_details", "print_pipes"):
        return same  # pure readers (they re-load the cached view from the chip)
    if name in ("get_payload_length", "get_auto_ack", "get_dynamic_payloads"):
        p = args[0]
        if not 0 <= p <= 5:
            return err("IndexError")
        return same
    if name == "address":
        if args[0] > 5:
            return err("IndexError")
        return same
    if name == "ack":
        if args[0]:
            r[1] |= 1
            r[0x1C] |= 1
            r[0x1D] |= 4 | 2
        else:
            r[0x1D] &= ~2 & 7
        return same
    if name == "allow_ask_no_ack":
        r[0x1D] = (r[0x1D] & 6) | int(bool(args[0]))
        return same
    if name == "interrupt_config":
        dr, ds, df = [bool(x) for x in args]
        r[0] = (r[0] & 0x0F) | ((not dr) << 6) | ((not ds) << 5) | ((not df) << 4)
        return same
    if name == "power":
        r[0] = (r[0] & ~2) | (2 if args[0] else 0)
        return same
    if name == "listen":
        if args[0]:
            r[0] |= 3
            n.ce = True
            if n.user0 is not None:
                n.a[0x0A][: len(n.user0)] = n.user0
            else:
                r[2] &= ~1
        else:
            r[0] = (r[0] | 2) & ~1
            n.ce = False
            if r[1] & 1:
                r[2] |= 1
        return same
    if name == "open_rx_pipe":
        p, addr = args
        if not 0 <= p <= 5:
            return err("IndexError")
        if not addr:
            return err("ValueError")
        if p < 2:
            n.a[0x0A + p][: len(addr)] = addr[:5]
            if p == 0:
                n.user0 = bytes(addr)
        else:
            n.a[0x0A + p][0] = addr[0]
        r[2] |= 1 << p
        return same
    if name == "close_rx_pipe":
        p = args[0]
        if not 0 <= p <= 5:
            return err("IndexError")
        r[2] &= ~(1 << p)
        if p == 0:
            n.user0 = None
        return same
    if name == "open_tx_pipe":
        addr = args[0]
        n.a[0x10][: len(addr)] = addr
        if r[1] & 1:
            # "RX pipe 0 is appropriated with the TX address": the whole resulting address
            n.a[0x0A][:] = n.a[0x10]
            if not r[0] & 1 and not r[2] & 1:
                # opening pipe 0 for the ACKs at this point is C08's business: both admitted
                m2 = n.copy()
                m2.r[2] |= 1
                return [(None, m2), (None, n)]
        return same
    if name == "exit_exc":
        name = "exit"
    if name == "exit":
        r[0] &= ~2
        n.ce = False
        return same
    if name == "enter":
        if n.carrier_dirty is not None:
            n = n.carrier_dirty
            n.carrier_dirty = None
            n.r[6] &= ~0x90
        n.r[0] |= 2
        n.ce = False
        return [(None, n)]
    if name == "reenter":  # coherence probe: __exit__ then __enter__
        if n.carrier_dirty is not None:
            n = n.carrier_dirty
            n.carrier_dirty = None
            n.r[6] &= ~0x90
        n.r[0] |= 2
        n.ce = False
        return [(None, n)]
    if name == "start_carrier_wave":
        saved = s.copy()
        r[0] = (r[0] | 2) & ~1
        if r[1] & 1:
            r[2] |= 1
        r[6] |= 0x90
        n.ce = True
        if not plus:
            # what the object must restore later: its pre-carrier settings
            saved.r[0] = r[0]
            saved.r[2] = r[2]
            saved.r[6] = r[6]
            n.carrier_dirty = saved
            r[1] = 0
            r[4] = 0
            n.a[0x10][:] = b"\xFF" * 5
            r[0] = 0x73
            n.cfg_mask = 0x0F
        return same
    if name == "stop_carrier_wave":
        r[0] &= ~2
        r[6] &= ~0x90
        n.ce = False
        if n.carrier_dirty is not None:
            n.carrier_dirty.r[0] &= ~2
            n.cfg_mask = 0x02  # documented: the chip sleeps; the rest is restored by `with`
        return same
    if name == "noop":
        return same
    raise KeyError(name)


def apply_to_driver(obj, op):
    """execute op on a real driver object; returns (exception name | None, value)"""
    name = op[0]
    args = [unhex(a) for a in op[1:]]
    try:
        if name in ("channel", "data_rate", "pa_level", "crc", "address_length", "ard",
                    "arc", "auto_ack", "dynamic_payloads", "payload_length", "ack",
                    "allow_ask_no_ack", "power", "listen"):
            setattr(obj, name, args[0])
            return None, None
        if name == "exit":
            return None, obj.__exit__(None, None, None)
        if name == "exit_exc":
            # the block is left by an exception (with semantics: __exit__ gets the exception triple)
            e = ValueError("raised inside the block")
            return None, obj.__exit__(ValueError, e, None)
        if name == "enter":
            obj.__enter__()
            return None, None
        if name == "reenter":
            obj.__exit__(None, None, None)
            obj.__enter__()
            return None, None
        if name == "noop":
            return None, None
        if name in ("print_details", "print_pipes"):
            import contextlib, io
            with contextlib.redirect_stdout(io.StringIO()):
                getattr(obj, name)(*args)
            return None, None
        return None, getattr(obj, name)(*args)
    except (ValueError, IndexError, TypeError, AttributeError, KeyError,
            NotImplementedError, RuntimeError, OverflowError, ArithmeticError) as exc:
        return type(exc).__name__, None


def diff_cfg(expected, actual):
    """human-readable register diff of two 38-byte config strings"""
    out = []
    i = 0
    for reg in ORDER:
        w = 5 if reg in (0x0A, 0x0B, 0x10) else 1
        e, a = expected[i:i + w], actual[i:i + w]
        if e != a:
            out.append("%s expected %s got %s" % (REG_NAMES[reg], e.hex(), a.hex()))
        i += w
    return out


# ---------------------------------------------------------------------------
# rf24_lite: documented reductions (docs/troubleshooting.rst "About the lite version"):
# dynamic_payloads and payload_length are global, auto-ack and CRC16 are fixed, no `with`.
def lite_initial():
    s = State()
    s.r[0] = 0x0E  # the lite constructor leaves the radio powered up in TX role
    return s


def alternatives_lite(s, op):
    name = op[0]
    args = [unhex(a) for a in op[1:]]
    n = s.copy()
    r = n.r
    same = [(None, n)]

    def err(e):
        return [(e, s.copy())]

    if name in ("channel", "address_length", "ard", "arc", "interrupt_config", "power", "noop"):
        return alternatives(s, op)
    if name == "data_rate":
        if args[0] not in (1, 2, 250):
            return err("ValueError")
        return alternatives(s, op)
    if name == "pa_level":
        if args[0] not in PA_BITS or isinstance(args[0], bool):
            return err("ValueError")
        r[6] = (r[6] & 0xF8) | (PA_BITS[args[0]] << 1) | 1
        return same
    if name == "dynamic_payloads":
        en = bool(args[0])
        r[0x1D] = (r[0x1D] & 3) | (4 if en else 0)
        r[0x1C] = 0x3F if en else 0
        return same
    if name == "payload_length":
        for p in range(6):
            r[0x11 + p] = max(1, min(32, args[0]))
        return same
    if name == "ack":
        if args[0]:
            r[0x1C] = 0x3F
            r[0x1D] |= 4 | 2
        else:
            r[0x1D] &= 5
        return same
    if name == "listen":
        if args[0]:
            r[0] |= 3
            n.ce = True
            if n.user0 is not None:
                n.a[0x0A][: len(n.user0)] = n.user0
            else:
                r[2] &= ~1
        else:
            r[0] = (r[0] | 2) & ~1
            n.ce = False
            r[2] |= 1
        return same
    if name == "open_rx_pipe":
        p, addr = args
        if not 0 <= p <= 5:
            return err("ValueError")
        if not addr:
            return err("ValueError")
        return alternatives(s, op)
    if name == "close_rx_pipe":
        p = args[0]
        if not 0 <= p <= 5:
            return err("ValueError")
        r[2] &= ~(1 << p)
        if p == 0:
            n.user0 = None
        return same
    if name == "open_tx_pipe":
        addr = args[0]
        n.a[0x10][: len(addr)] = addr
        n.a[0x0A][:] = n.a[0x10]
        if not r[0] & 1 and not r[2] & 1:
            m2 = n.copy()
            m2.r[2] |= 1
            return [(None, m2), (None, n)]
        return same
    raise KeyError(name)
