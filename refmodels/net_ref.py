"""Independent reference models for the network layer (no code shared with the repo).

* logical addresses: validity, level, parent, tree path (digit arithmetic)
* physical pipe addresses after the published TMRh20 scheme
* 8-byte header codec written byte by byte
* TMRh20-style fragmenter and reassembler
* reference frame queue
"""

MULTICAST_RESERVED = (0o100, 0o10, 0o1000)
DEFAULT_ADDR = 0o4444
FRAG_FIRST, FRAG_MORE, FRAG_LAST = 148, 149, 150
NETWORK_ACK = 193
MAX_FRAG = 24


def digits(a):
    out = []
    while a:
        out.append(a & 7)
        a >>= 3
    return out  # least significant first


def is_node_address(a):
    """0, or one to four octal digits each in 1..5 (a real node, not a multicast code)"""
    if a is None or a < 0:
        return False
    if a == 0:
        return True
    d = digits(a)
    return len(d) <= 4 and all(1 <= x <= 5 for x in d)


def is_valid(a):
    """the validity predicate of property C15"""
    if a is None:
        return False
    return a in MULTICAST_RESERVED or is_node_address(a)


def level(a):
    return len(digits(a))


def parent(a):
    d = digits(a)
    if not d:
        return None
    v = 0
    for i, x in enumerate(d[:-1]):
        v |= x << (3 * i)
    return v


def child_pipe(a):
    """pipe of the parent a node transmits to = its most significant digit"""
    return digits(a)[-1]


def is_descendant(a, anc):
    """a is a strict descendant of anc"""
    da, dn = digits(a), digits(anc)
    return len(da) > len(dn) and da[: len(dn)] == dn


def all_addresses():
    out = [0]
    frontier = [0]
    for lvl in range(1, 5):
        nxt = []
        for p in frontier:
            for c in range(1, 6):
                nxt.append(p | (c << (3 * (lvl - 1))))
        out += nxt
        frontier = nxt
    return out


def tree_path(src, dst):
    """list of nodes visited after src (up to the common ancestor, then down)"""
    path = []
    cur = src
    while cur != dst and not is_descendant(dst, cur):
        cur = parent(cur)
        path.append(cur)
    while cur != dst:
        dd = digits(dst)
        k = level(cur)
        cur = cur | (dd[k] << (3 * k))
        path.append(cur)
    return path


def next_hop(cur, dst):
    return tree_path(cur, dst)[0]


DEF_PREFIX = 0xCC
DEF_SUFFIX = bytes([0xC3, 0x3C, 0x33, 0xCE, 0x3E, 0xE3])


def pipe_address(node, pipe, prefix=DEF_PREFIX, suffix=DEF_SUFFIX, multicast=True):
    """physical address, byte 0 first (published TMRh20 translation)"""
    out = bytearray([prefix] * 5)
    plain = (not multicast) or pipe != 0 or node == 0
    d = digits(node)
    if plain:
        for i, x in enumerate(d):
            out[1 + i] = suffix[x]
        out[0] = suffix[pipe]
    else:
        out[1] = suffix[len(d)]
    return bytes(out)


def level_address(lvl, prefix=DEF_PREFIX, suffix=DEF_SUFFIX):
    """shared pipe-0 address of a network level when multicast is allowed"""
    node = 0 if lvl == 0 else 1 << (3 * (lvl - 1))
    return pipe_address(node, 0, prefix, suffix, True)


# ---------------------------------------------------------------------------
def pack_header(frm, to, fid, typ, reserved):
    return bytes([frm & 0xFF, (frm >> 8) & 0x0F, to & 0xFF, (to >> 8) & 0x0F,
                  fid & 0xFF, (fid >> 8) & 0xFF, typ & 0xFF, reserved & 0xFF])


def unpack_header(b):
    if len(b) < 8:
        return None
    return {"from": b[0] | (b[1] << 8), "to": b[2] | (b[3] << 8), "id": b[4] | (b[5] << 8),
            "type": b[6], "reserved": b[7]}


def fragment(frm, to, fid, typ, msg, reserved=0):
    """frames (bytes) a TMRh20-compatible sender emits for one message (`reserved`: what the
    caller's header holds in that byte - it travels as it is in a single frame and is replaced by
    the fragment counter / the original type in a fragmented message)"""
    n = len(msg)
    if n <= MAX_FRAG:
        return [pack_header(frm, to, fid, typ, reserved) + bytes(msg)]
    total = (n + MAX_FRAG - 1) // MAX_FRAG
    out = []
    for i in range(total):
        part = bytes(msg[i * MAX_FRAG:(i + 1) * MAX_FRAG])
        if i == 0:
            h = pack_header(frm, to, fid, FRAG_FIRST, total)
        elif i == total - 1:
            h = pack_header(frm, to, fid, FRAG_LAST, typ)
        else:
            h = pack_header(frm, to, fid, FRAG_MORE, total - i)
        out.append(h + part)
    return out


class TmrhReassembler:
    """transcribed from the published behaviour of RF24Network.cpp (appendFragmentToFrame)"""
    MAX_PAYLOAD = 144

    def __init__(self):
        self.hdr = None
        self.msg = b""
        self.out = []

    def feed(self, frame):
        h = unpack_header(frame)
        body = bytes(frame[8:])
        if h is None:
            return False
        t = h["type"]
        if t == FRAG_FIRST:
            if h["reserved"] > self.MAX_PAYLOAD // MAX_FRAG:
                self.hdr = None
                return False
            self.hdr = dict(h)
            self.msg = body
            self.hdr["reserved"] -= 1
            return True
        if t in (FRAG_MORE, FRAG_LAST):
            if self.hdr is None or len(self.msg) + len(body) > self.MAX_PAYLOAD:
                self.hdr = None
                return False
            if (self.hdr["reserved"] == 0
                    or (t != FRAG_LAST and h["reserved"] != self.hdr["reserved"])
                    or self.hdr["id"] != h["id"]):
                return False
            self.msg += body
            if t != FRAG_LAST:
                self.hdr["reserved"] -= 1
                return True
            self.hdr["reserved"] = 0
            self.out.append({"from": self.hdr["from"], "to": self.hdr["to"], "id": self.hdr["id"],
                             "type": h["reserved"], "msg": self.msg})
            return True
        self.out.append({"from": h["from"], "to": h["to"], "id": h["id"], "type": t, "msg": body})
        return True


class RefQueue:
    """bounded, duplicate-free FIFO of private copies (property C12)"""

    def __init__(self, maxsize=6):
        self.max = maxsize
        self.q = []

    def enqueue(self, frm, fid, typ, to, reserved, msg):
        if len(self.q) >= self.max:
            return False
        for f in self.q:
            if f[0] == frm and f[1] == fid and f[2] == typ:
                return False
        self.q.append((frm, fid, typ, to, reserved, bytes(msg)))
        return True

    def dequeue(self):
        return self.q.pop(0) if self.q else None

    def peek(self):
        return self.q[0] if self.q else None

    def __len__(self):
        return len(self.q)
