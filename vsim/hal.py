"""Simulated SPI buses and GPIO pins (DESIGN §2.2).

* SimSpiDev   - spidev-like (`open/close/xfer2`, `no_cs`); class name ends in
                "SpiDev" so that RF24 wraps it in the repository's SPIDevCtx.
* SimBusSPI   - busio-like bus used through the real adafruit SPIDevice.
* SimPin      - digitalio-like pin; CE pins forward edges to their radio, CSN
                pins select the radio on the bus.

All of them charge the calling node's virtual clock and synchronise with the
world before the radio is touched.
"""
from .world import current_node


class SimPin:
    def __init__(self, name="pin", value=True):
        self.name = name
        self._value = bool(value)
        self.on_change = None
        self.n_writes = 0

    def switch_to_output(self, value=False, **_kw):
        self.value = value

    @property
    def value(self):
        return self._value

    @value.setter
    def value(self, v):
        v = bool(v)
        node = current_node()
        if node is not None:
            node.interact()
        self.n_writes += 1
        if v != self._value:
            self._value = v
            if self.on_change is not None:
                self.on_change(v)
        if node is not None:
            node.pin_cost()


def ce_pin(radio):
    p = SimPin(radio.name + ".CE", False)
    p.on_change = radio.set_ce
    return p


class SimSpiDev:
    """spidev.SpiDev look-alike.  `devices` maps (bus, dev) -> radio for the
    hardware-CS flavour; `cs_pins` is a list of (SimPin, radio) for no_cs use."""

    def __init__(self, devices=None, cs_pins=None):
        self.devices = devices or {}
        self.cs_pins = cs_pins or []
        self.no_cs = False
        self._open = None
        self.n_xfer = 0
        self.errors = []

    def open(self, bus, dev):
        self._open = (bus, dev)

    def close(self):
        self._open = None

    def _target(self):
        if self.no_cs:
            sel = [r for p, r in self.cs_pins if not p.value]
            if len(sel) != 1:
                self.errors.append("no_cs transfer with %d chips selected" % len(sel))
                return None
            return sel[0]
        if self._open is None:
            self.errors.append("xfer2 on a closed SpiDev")
            return None
        r = self.devices.get(self._open)
        if r is None:
            self.errors.append("no device at %r" % (self._open,))
        return r

    def xfer2(self, buf, speed_hz=0, *_a):
        node = current_node()
        if node is not None:
            node.interact()
        self.n_xfer += 1
        r = self._target()
        out = bytes(buf)
        resp = list(r.command(out)) if r is not None else [0] * len(out)
        if node is not None:
            node.spi_cost(len(out))
        return resp


class SimBusSPI:
    """busio.SPI look-alike carrying one or more radios selected by CSN pins."""

    def __init__(self, cs_pins=None):
        self.cs_pins = cs_pins or []  # (SimPin, radio)
        self._locked = False
        self.discarded = 0
        self.errors = []
        self.n_xfer = 0

    def attach(self, pin, radio):
        self.cs_pins.append((pin, radio))

    def try_lock(self):
        if self._locked:
            return False
        self._locked = True
        return True

    def unlock(self):
        self._locked = False

    def configure(self, baudrate=100000, polarity=0, phase=0, bits=8):
        if not self._locked:
            self.errors.append("configure() without lock")

    def _xfer(self, out):
        node = current_node()
        if node is not None:
            node.interact()
        self.n_xfer += 1
        sel = [r for p, r in self.cs_pins if not p.value]
        if not sel:
            self.discarded += len(out)  # clocks with no chip selected (extra_clocks)
            resp = bytes(len(out))
        elif len(sel) > 1:
            self.errors.append("bus contention: %d chips selected" % len(sel))
            resp = bytes(len(out))
        else:
            resp = sel[0].command(out)
        if node is not None:
            node.spi_cost(len(out))
        return resp

    def write(self, buf, start=0, end=None):
        end = len(buf) if end is None else end
        self._xfer(bytes(buf[start:end]))

    def readinto(self, buf, start=0, end=None, write_value=0):
        end = len(buf) if end is None else end
        resp = self._xfer(bytes([write_value]) * (end - start))
        buf[start:end] = resp

    def write_readinto(self, out_buf, in_buf, out_start=0, out_end=None,
                       in_start=0, in_end=None):
        out_end = len(out_buf) if out_end is None else out_end
        in_end = len(in_buf) if in_end is None else in_end
        out = bytes(out_buf[out_start:out_end])
        if in_end - in_start != len(out):
            self.errors.append("write_readinto length mismatch %d vs %d"
                               % (len(out), in_end - in_start))
        resp = self._xfer(out)
        n = min(len(resp), in_end - in_start)
        in_buf[in_start:in_start + n] = resp[:n]
