"""Builds simulated rigs: world + radios + real driver objects.

The repository under test is imported from VERIF_REPO (default /repo) *after*
the time patch is installed; we refuse to run if the package resolves elsewhere.
"""
import importlib
import os
import sys

from . import world as W
from .hal import SimBusSPI, SimPin, SimSpiDev, ce_pin
from .radio import Air, SimRadio

REPO = os.path.realpath(os.environ.get("VERIF_REPO", "/repo"))
_mods = {}


def repo():
    """import (once) and return the dict of repository modules"""
    if _mods:
        return _mods
    W.install_time_patch()
    if REPO in sys.path:
        sys.path.remove(REPO)
    sys.path.insert(0, REPO)
    for k in [k for k in sys.modules if k.startswith("circuitpython_nrf24l01")]:
        del sys.modules[k]
    pkg = importlib.import_module("circuitpython_nrf24l01")
    where = os.path.realpath(os.path.dirname(pkg.__file__))
    if not where.startswith(REPO + os.sep):
        raise SystemExit("circuitpython_nrf24l01 resolved to %s, not under %s" % (where, REPO))
    for name in ("rf24", "rf24_lite", "fake_ble", "rf24_network", "rf24_mesh",
                 "network.structs", "network.mixins", "network.constants",
                 "wrapper.cpy_spidev"):
        _mods[name.split(".")[-1]] = importlib.import_module("circuitpython_nrf24l01." + name)
    return _mods


class Rig:
    """one world, one air, any number of radios/drivers"""

    def __init__(self, seed=0, profile=None, bind=True):
        self.world = W.World(seed)
        self.air = Air(self.world)
        self.radios = []
        self.node = None
        if bind:
            self.node = self.world.add_node("mcu", profile or W.Profile(jitter=0.0))
            self.world.bind(self.node)

    def radio(self, name=None, plus=True):
        r = SimRadio(self.world, name or "r%d" % len(self.radios), plus=plus)
        self.air.add(r)
        self.radios.append(r)
        return r

    def spi_args(self, radio, flavour="pin"):
        """(spi, csn, ce) triple for a driver constructor"""
        # one physical chip = one CE pin, one CSN pin and one bus, shared by every driver
        # object constructed on it
        cache = radio.__dict__.setdefault("_hal_cache", {})
        if flavour in cache:
            return cache[flavour]
        ce = getattr(radio, "ce_pin_obj", None) or ce_pin(radio)
        radio.ce_pin_obj = ce
        cache[flavour] = self._spi_args(radio, flavour, ce)
        return cache[flavour]

    @staticmethod
    def _spi_args(radio, flavour, ce):
        if flavour == "pin":
            csn = SimPin(radio.name + ".CSN", True)
            spi = SimSpiDev(cs_pins=[(csn, radio)])
            return spi, csn, ce
        if flavour == "hwcs":
            spi = SimSpiDev(devices={(0, 0): radio})
            return spi, 0, ce
        if flavour == "bus":
            csn = SimPin(radio.name + ".CSN", True)
            spi = SimBusSPI([(csn, radio)])
            return spi, csn, ce
        raise ValueError(flavour)

    def driver(self, radio, cls=None, flavour="pin", **kw):
        m = repo()
        cls = cls or m["rf24"].RF24
        spi, csn, ce = self.spi_args(radio, flavour)
        obj = cls(spi, csn, ce, **kw)
        obj._verif_spi = spi
        return obj

    def settle(self, ns):
        """let virtual time pass for the bound node"""
        self.node.idle(ns)

    def close(self):
        W.World.unbind()
