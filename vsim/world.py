"""Virtual clock, event queue and deterministic multi-MCU scheduler (DESIGN §2.2/§2.3).

Time is integer nanoseconds.  Every MCU ("Node") executes real driver code in its
own OS thread; a baton (one semaphore per node) guarantees that exactly one thread
runs, and the order in which nodes and radio events run is a pure function of the
case (node profiles + seeds), never of wall-clock time.

`install_time_patch()` replaces time.sleep/monotonic/monotonic_ns (and perf
variants the repository does not use are left alone) by functions that consult
the node bound to the calling thread; threads without a node fall through to the
real functions.
"""
import heapq
import random
import threading
import time as _time

REAL_SLEEP = _time.sleep
REAL_MONOTONIC = _time.monotonic
REAL_MONOTONIC_NS = _time.monotonic_ns

INF = 1 << 62
US = 1000
MS = 1000000

_tls = threading.local()


class VirtualDeadline(BaseException):
    """raised inside a node when its per-call virtual deadline passes
    (BaseException so that no `except Exception` in the code under test eats it)"""


class StopNode(BaseException):
    """raised inside daemon nodes when the world is stopping"""


class Profile:
    """MCU cost profile (ns). jitter is the +/- fraction applied per event."""

    __slots__ = ("spi_overhead", "spi_byte", "pin", "timecall", "jitter", "poll")

    def __init__(self, spi_overhead=30000, spi_byte=800, pin=2000, timecall=1500,
                 jitter=0.3, poll=200000):
        self.spi_overhead = spi_overhead
        self.spi_byte = spi_byte
        self.pin = pin
        self.timecall = timecall
        self.jitter = jitter
        self.poll = poll

    def as_dict(self):
        return {k: getattr(self, k) for k in self.__slots__}

    @classmethod
    def from_dict(cls, d):
        return cls(**d)


class Node:
    def __init__(self, world, idx, name, profile, seed):
        self.world = world
        self.idx = idx
        self.name = name
        self.profile = profile
        self.rng = random.Random(seed)
        self.t = 0
        self.sem = threading.Semaphore(0)
        self.done = True  # not runnable until started
        self.thread = None
        self.exc = None
        self.deadline = None
        self.daemon = False
        self.irq_wait = None  # radio being waited on
        self.frame_id_state = None  # per-node RF24NetworkHeader counter
        self.n_spi = 0

    # -- cost model ------------------------------------------------------
    def _j(self, cost):
        j = self.profile.jitter
        if j:
            return int(cost * (1.0 - j + 2 * j * self.rng.random()))
        return cost

    def advance(self, dt):
        self.t += dt
        if self.deadline is not None and self.t > self.deadline:
            raise VirtualDeadline(self.name)
        if self.t > self.world.horizon:
            raise VirtualDeadline(self.name + " (world horizon)")

    def interact(self):
        """synchronise with the world before touching shared hardware"""
        if self.world.stopping and self.daemon:
            raise StopNode()
        self.world.sync(self)

    def spi_cost(self, nbytes):
        p = self.profile
        self.n_spi += 1
        self.advance(self._j(p.spi_overhead + p.spi_byte * nbytes))

    def pin_cost(self):
        self.advance(self._j(self.profile.pin))

    # -- time module -----------------------------------------------------
    def v_sleep(self, secs):
        self.advance(int(secs * 1e9) + self._j(self.profile.timecall))

    def v_monotonic_ns(self):
        self.advance(self._j(self.profile.timecall))
        return self.t

    # -- application helpers --------------------------------------------
    def idle(self, ns):
        """application-level sleep; honours world.stopping for daemon loops"""
        if self.world.stopping and self.daemon:
            raise StopNode()
        self.advance(int(ns))
        self.world.sync(self)

    def wait_irq(self, radio, timeout_ns, latency_ns=5000):
        """sleep until the radio's IRQ line is asserted (active low) or timeout"""
        if self.world.stopping and self.daemon:
            raise StopNode()
        self.world.sync(self)
        if not radio.irq_level():
            self.advance(latency_ns)
            return True
        start = self.t
        self.irq_wait = (radio, start, latency_ns)
        radio.irq_waiters.append(self)
        self.t = start + int(timeout_ns)
        try:
            self.world.sync(self)
        finally:
            if self.irq_wait is not None:
                self.irq_wait = None
                if self in radio.irq_waiters:
                    radio.irq_waiters.remove(self)
        if self.world.stopping and self.daemon:
            raise StopNode()
        if self.deadline is not None and self.t > self.deadline:
            raise VirtualDeadline(self.name)
        return not radio.irq_level()

    def wait_rx(self, radio, timeout_ns, latency_ns=5000):
        """sleep until the radio holds a received payload (RX_DR-driven application)"""
        if self.world.stopping and self.daemon:
            raise StopNode()
        self.world.sync(self)
        if radio.rx_fifo:
            self.advance(latency_ns)
            return True
        start = self.t
        self.irq_wait = (radio, start, latency_ns)
        radio.rx_waiters.append(self)
        self.t = start + int(timeout_ns)
        try:
            self.world.sync(self)
        finally:
            if self.irq_wait is not None:
                self.irq_wait = None
            if self in radio.rx_waiters:
                radio.rx_waiters.remove(self)
        if self.world.stopping and self.daemon:
            raise StopNode()
        if self.deadline is not None and self.t > self.deadline:
            raise VirtualDeadline(self.name)
        return bool(radio.rx_fifo)

    def irq_fired(self):
        """called by the radio (in whichever thread holds the baton)"""
        if self.irq_wait is None:
            return
        radio, start, lat = self.irq_wait
        self.irq_wait = None
        if self in radio.irq_waiters:
            radio.irq_waiters.remove(self)
        if self in radio.rx_waiters:
            radio.rx_waiters.remove(self)
        self.t = max(start, self.world.now) + lat


class World:
    def __init__(self, seed=0):
        self.seed = seed
        self.now = 0
        self.events = []
        self._seq = 0
        self.nodes = []
        self.stopping = False
        self.main_sem = threading.Semaphore(0)
        self.current = None
        self.n_events = 0
        self.n_switches = 0
        self.swap_frame_ids = None  # callable(old_node, new_node)
        # a node may run ahead of the others by this much without yielding: nothing one MCU
        # does can reach another MCU's radio in less than TX settling (130 us) + air time
        self.lookahead = 0
        self.horizon = 30 * 1000 * MS  # absolute virtual time at which any node is stopped

    # -- events ----------------------------------------------------------
    def at(self, t, fn, *args):
        self._seq += 1
        h = [int(t), self._seq, fn, args, True]
        heapq.heappush(self.events, h)
        return h

    @staticmethod
    def cancel(h):
        if h is not None:
            h[4] = False

    def _next_event_time(self):
        ev = self.events
        while ev and not ev[0][4]:
            heapq.heappop(ev)
        return ev[0][0] if ev else INF

    def _run_event(self):
        h = heapq.heappop(self.events)
        if h[0] > self.now:
            self.now = h[0]
        self.n_events += 1
        h[2](*h[3])

    # -- nodes -----------------------------------------------------------
    def add_node(self, name=None, profile=None, seed=None):
        idx = len(self.nodes)
        n = Node(self, idx, name or ("n%d" % idx), profile or Profile(),
                 (self.seed * 1000003 + idx * 7919 + 17) if seed is None else seed)
        self.nodes.append(n)
        return n

    def bind(self, node):
        """bind the calling thread to node (single-MCU workloads: the main thread)"""
        _tls.node = node
        for n in self.nodes:  # a node bound earlier from this controller thread has no thread of
            if n is not node and n.thread is None:  # its own: it must not be waited for
                n.done = True
        node.done = False
        self.current = node
        return node

    @staticmethod
    def unbind():
        _tls.node = None

    def sync(self, node):
        """run everything that is earlier than node.t (events first on ties,
        then lower node index)."""
        nodes = self.nodes
        while True:
            te = self._next_event_time()
            my = node.t
            tn = INF
            other = None
            if len(nodes) > 1:
                for n in nodes:
                    if n is not node and not n.done and (
                        n.t < tn or (n.t == tn and other is not None and n.idx < other.idx)
                    ):
                        tn = n.t
                        other = n
            if te <= my and te <= tn:
                self._run_event()
                continue
            if other is not None and (tn + self.lookahead < my
                                      or (tn == my and other.idx < node.idx)):
                self._switch(node, other)
                continue
            break
        if node.t > self.now:
            self.now = node.t

    def _switch(self, cur, other):
        self.n_switches += 1
        if self.swap_frame_ids is not None:
            self.swap_frame_ids(cur, other)
        self.current = other
        other.sem.release()
        cur.sem.acquire()

    def spawn(self, node, fn, *args, daemon=False, start_at=0):
        node.daemon = daemon
        node.t = max(node.t, int(start_at))
        node.done = False

        def body():
            _tls.node = node
            node.sem.acquire()
            try:
                fn(*args)
            except StopNode:
                pass
            except VirtualDeadline as exc:
                node.exc = exc
            except BaseException as exc:  # noqa: BLE001
                node.exc = exc
            finally:
                node.done = True
                self._handoff_from_finished(node)

        th = threading.Thread(target=body, name=node.name, daemon=True)
        node.thread = th
        th.start()
        return node

    def _handoff_from_finished(self, node):
        # stop the daemons when only daemons remain
        alive = [n for n in self.nodes if not n.done]
        if alive and all(n.daemon for n in alive):
            self.stopping = True
        nxt = None
        for n in alive:
            if nxt is None or n.t < nxt.t or (n.t == nxt.t and n.idx < nxt.idx):
                nxt = n
        if nxt is None:
            self.current = None
            self.main_sem.release()
        else:
            # run the events that precede the next node's time
            while self._next_event_time() <= nxt.t:
                self._run_event()
            if self.swap_frame_ids is not None:
                self.swap_frame_ids(node, nxt)
            self.current = nxt
            nxt.sem.release()

    def run(self, wall_timeout=120.0):
        """start the scheduler from the controller thread; returns True when all
        nodes finished, False on wall-clock watchdog (inconclusive)."""
        alive = [n for n in self.nodes if not n.done]
        if not alive:
            return True
        first = min(alive, key=lambda n: (n.t, n.idx))
        while self._next_event_time() <= first.t:
            self._run_event()
        if self.swap_frame_ids is not None:
            self.swap_frame_ids(None, first)
        self.current = first
        first.sem.release()
        ok = self.main_sem.acquire(timeout=wall_timeout)
        return ok

    def drain(self, until=None):
        """process remaining events (controller thread, no node running)"""
        while True:
            te = self._next_event_time()
            if te == INF or (until is not None and te > until):
                break
            self._run_event()
        if until is not None and until > self.now:
            self.now = until


def current_node():
    return getattr(_tls, "node", None)


def _v_sleep(secs):
    n = getattr(_tls, "node", None)
    if n is None:
        return REAL_SLEEP(secs)
    if secs < 0:  # as the real time.sleep() does
        raise ValueError("sleep length must be non-negative")
    n.v_sleep(secs)
    return None


def _v_monotonic_ns():
    n = getattr(_tls, "node", None)
    if n is None:
        return REAL_MONOTONIC_NS()
    return n.v_monotonic_ns()


def _v_monotonic():
    n = getattr(_tls, "node", None)
    if n is None:
        return REAL_MONOTONIC()
    return n.v_monotonic_ns() / 1e9


_patched = False


def install_time_patch():
    global _patched
    if _patched:
        return
    _time.sleep = _v_sleep
    _time.monotonic_ns = _v_monotonic_ns
    _time.monotonic = _v_monotonic
    _patched = True
