"""Simulator self-validation (DESIGN §6.1): scripted scenarios with known outcomes.
Exit 0 when all hold; used by setup.sh."""
import sys

from . import radio as R
from .rig import Rig, repo
from .world import MS, US


def spi(r, *b):
    return r.command(bytes(b))


def t_reset_and_masks():
    rig = Rig()
    r = rig.radio("x")
    assert spi(r, 0x00, 0)[1] == 0x08 and spi(r, 0x01, 0)[1] == 0x3F
    assert spi(r, 0x02, 0)[1] == 0x03 and spi(r, 0x03, 0)[1] == 0x03
    assert spi(r, 0x04, 0)[1] == 0x03 and spi(r, 0x05, 0)[1] == 0x02
    assert spi(r, 0x06, 0)[1] == 0x0E and spi(r, 0x07, 0)[1] == 0x0E
    assert spi(r, 0x17, 0)[1] == 0x11 and spi(r, 0x1C, 0)[1] == 0 and spi(r, 0x1D, 0)[1] == 0
    assert bytes(spi(r, 0x0A, 0, 0, 0, 0, 0)[1:]) == b"\xE7" * 5
    assert bytes(spi(r, 0x0B, 0, 0, 0, 0, 0)[1:]) == b"\xC2" * 5
    assert spi(r, 0x0F, 0)[1] == 0xC6 and spi(r, 0x11, 0)[1] == 0
    # reserved bits are flagged and read back 0
    spi(r, 0x20 | 0x01, 0xFF)
    assert spi(r, 0x01, 0)[1] == 0x3F and r.san and r.san[-1][0] == "reserved_bits"
    del r.san[:]
    spi(r, 0x20 | 0x05, 126)
    assert r.san[-1][0] == "out_of_range"
    spi(r, 0x20 | 0x12, 33)
    assert r.san[-1][0] == "out_of_range"
    spi(r, 0x20 | 0x08, 1)
    assert r.san[-1][0] == "readonly_reg"
    spi(r, 0x20 | 0x03, 1, 2)
    assert r.san[-1][0] == "reg_length"
    spi(r, 0xA0)
    assert r.san[-1][0] == "payload_length"
    spi(r, 0x77)
    assert r.san[-1][0] == "cmd_unknown"
    # status is sampled before the command (A2)
    r.flags = 0x20
    assert spi(r, 0x27, 0x70)[0] & 0x20
    assert not spi(r, 0xFF)[0] & 0x20
    rig.close()


def t_airtime():
    assert R.airtime_ns(1, 5, 32, 2) == ((1 + 5 + 32 + 2) * 8 + 9) * 1000
    assert R.airtime_ns(2, 3, 1, 1) == ((1 + 3 + 1 + 1) * 8 + 9) * 500
    assert R.airtime_ns(250, 5, 0, 2) == ((1 + 5 + 0 + 2) * 8 + 9) * 4000


def pair(**kw):
    repo()
    rig = Rig()
    ra, rb = rig.radio("A"), rig.radio("B")
    a, b = rig.driver(ra), rig.driver(rb)
    b.open_rx_pipe(1, b"1Node")
    b.listen = True
    a.open_tx_pipe(b"1Node")
    a.listen = False
    return rig, ra, rb, a, b


def t_ack_lost_dup_filtered():
    rig, ra, rb, a, b = pair()
    state = {"n": 0}

    def fault(pkt, rx):
        if pkt.kind == "ack" and state["n"] == 0:
            state["n"] += 1
            return True
        return False
    rig.air.fault = fault
    assert a.send(b"hello") is True
    data = [p for p in rig.air.log if p.kind == "data"]
    assert len(data) == 2 and data[0].pid == data[1].pid
    assert len(rb.rx_fifo) == 1, rb.rx_fifo
    assert a.last_tx_arc == 1
    assert [o for _, o in data[1].outcomes] == ["dup:1"]
    rig.close()


def t_rx_full_no_ack():
    rig, ra, rb, a, b = pair()
    a.arc = 2
    for i in range(3):
        assert a.send(bytes([i + 1]) * 4) is True
    assert len(rb.rx_fifo) == 3
    assert a.send(b"over") is False
    assert len(rb.rx_fifo) == 3 and ra.flags & 0x10
    assert spi(rb, 0x17, 0)[1] & 0x02
    # MAX_RT blocks TX until cleared; payload stays at the head (A11)
    assert len(ra.tx_fifo) == 1
    n = len(rig.air.log)
    rig.settle(20 * MS)
    assert len(rig.air.log) == n
    rig.close()


def t_ack_payload_lifecycle():
    rig, ra, rb, a, b = pair()
    a.ack = True
    b.ack = True
    b.listen = False
    b.listen = True
    assert b.load_ack(b"one", 1) and b.load_ack(b"two", 1)
    assert a.send(b"p1") == bytearray(b"one")
    assert len(rb.tx_fifo) == 2 and not rb.flags & 0x20
    assert a.send(b"p2") == bytearray(b"two")
    assert len(rb.tx_fifo) == 1 and rb.flags & 0x20  # first ACK payload confirmed
    r = a.send(b"p3")
    assert r is True, r
    assert len(rb.tx_fifo) == 0
    rig.close()


def t_ard_250k():
    rig, ra, rb, a, b = pair()
    a.data_rate = 250
    b.data_rate = 250
    a.set_auto_retries(250, 1)
    assert a.send(b"x") is False  # ACK address field cannot complete within 250 us
    a.ard = 500
    b.flush_rx()
    assert a.send(b"y") is True
    rig.close()


def t_irq_and_nonplus():
    m = repo()
    rig = Rig()
    r = rig.radio("np", plus=False)
    d = rig.driver(r)
    assert d.is_plus_variant is False and r.activated
    assert r.r[R.FEATURE] == 5
    r.inject_rx(2, b"abc")
    assert r.irq_level() is False
    d.interrupt_config(data_recv=False)
    assert r.irq_level() is True
    d.interrupt_config()
    assert r.irq_level() is False and d.available() and d.pipe == 2 and d.any() == 3
    assert d.read() == bytearray(b"abc") and r.irq_level() is True
    rig.close()
    rig = Rig()
    rp = rig.radio("p", plus=True)
    assert rig.driver(rp).is_plus_variant is True
    rig.close()


def t_rx_stream_read():
    rig = Rig()
    r = rig.radio("x")
    r.inject_rx(1, b"abcd")
    r.inject_rx(1, b"efgh")
    # partial read leaves the payload (A3)
    assert bytes(spi(r, 0x61, 0, 0)[1:]) == b"ab" and len(r.rx_fifo) == 2
    out = spi(r, 0x61, *([0] * 10))
    assert bytes(out[1:]) == b"abcdefghhh" and not r.rx_fifo
    assert spi(r, 0x60, 0)[1] == 0
    rig.close()


def t_lite_on_bus():
    m = repo()
    rig = Rig()
    ra, rb = rig.radio("A"), rig.radio("B")
    a = rig.driver(ra, cls=m["rf24_lite"].RF24, flavour="bus")
    b = rig.driver(rb)
    b.open_rx_pipe(1, b"1Node")
    b.listen = True
    a.open_tx_pipe(b"1Node")
    a.listen = False
    assert a.send(b"lite") is True and b.read() == bytearray(b"lite")
    assert a._verif_spi.discarded > 0 and not a._verif_spi.errors
    rig.close()


def t_threads_deterministic():
    """two MCUs: the on-air order is a pure function of the case"""
    from . import world as W
    digests = []
    for _ in range(2):
        repo()
        rig = Rig(seed=5, bind=False)
        n1 = rig.world.add_node("a", W.Profile(jitter=0.3))
        n2 = rig.world.add_node("b", W.Profile(spi_overhead=90000, jitter=0.3))
        rig.world.bind(n1)
        ra, rb = rig.radio("A"), rig.radio("B")
        a, b = rig.driver(ra), rig.driver(rb)
        b.open_rx_pipe(1, b"1Node")
        b.listen = True
        a.open_tx_pipe(b"1Node")
        a.listen = False
        W.World.unbind()
        got = []

        def tx():
            for i in range(8):
                a.send(bytes([i]) * 6)
            n1.idle(3 * MS)

        def rx():
            while True:
                if b.available():
                    got.append(bytes(b.read()))
                else:
                    n2.idle(150 * US)
        n2.t = n1.t
        rig.world.spawn(n1, tx)
        rig.world.spawn(n2, rx, daemon=True)
        assert rig.world.run(30)
        assert n1.exc is None and n2.exc is None, (n1.exc, n2.exc)
        assert got == [bytes([i]) * 6 for i in range(8)], got
        digests.append(tuple((p.kind, p.t0, p.t1) for p in rig.air.log))
    assert digests[0] == digests[1]


def t_example_multiceiver():
    """port of examples/nrf24l01_multiceiver_test.py: six transmitters, one receiver with six pipes"""
    m = repo()
    addresses = [b"\x78" * 5, b"\xF1\xB6\xB5\xB4\xB3", b"\xCD\xB6\xB5\xB4\xB3",
                 b"\xA3\xB6\xB5\xB4\xB3", b"\x0F\xB6\xB5\xB4\xB3", b"\x05\xB6\xB5\xB4\xB3"]
    rig = Rig()
    base = rig.driver(rig.radio("base"))
    for pipe_n, addr in enumerate(addresses):
        base.open_rx_pipe(pipe_n, addr)
    base.listen = True
    got = []
    for n in range(6):
        node = rig.driver(rig.radio("node%d" % n))
        node.listen = False
        node.open_tx_pipe(addresses[n])
        assert node.send(b"\0" + bytes([n + 0x30])) is True, n
        while base.available():
            got.append((base.pipe, bytes(base.read())))
    assert got == [(n, b"\0" + bytes([n + 0x30])) for n in range(6)], got
    rig.close()


def t_example_manual_ack_and_context():
    """ports of the manual-ack ping-pong and of the context example (two objects, one radio)"""
    m = repo()
    rig = Rig()
    ra, rb = rig.radio("A"), rig.radio("B")
    a, b = rig.driver(ra), rig.driver(rb)
    a.open_tx_pipe(b"1Node")
    a.open_rx_pipe(1, b"2Node")
    b.open_tx_pipe(b"2Node")
    b.open_rx_pipe(1, b"1Node")
    b.listen = True
    a.listen = False
    for i in range(3):
        assert a.send(b"Hello " + bytes([i])) is True
        a.listen = True
        assert b.available() and bytes(b.read()) == b"Hello " + bytes([i])
        b.listen = False
        assert b.send(b"World " + bytes([i])) is True
        b.listen = True
        assert a.available() and a.pipe == 1 and bytes(a.read()) == b"World " + bytes([i])
        a.listen = False
    # context example: a BLE object and a plain object configured differently on one chip
    F = m["fake_ble"]
    rc = rig.radio("C")
    nrf = rig.driver(rc)
    ble = rig.driver(rc, cls=F.FakeBLE)
    with nrf as n:
        n.data_rate = 2
        n.channel = 100
        snap_n = rc.snapshot()["cfg"]
    with ble as bl:
        snap_b = rc.snapshot()["cfg"]
        assert rc.r[5] in (2, 26, 80) and rc.r[1] == 0 and rc.r[3] == 2
    with nrf:
        assert rc.snapshot()["cfg"] == snap_n
    with ble:
        assert rc.snapshot()["cfg"] == snap_b
    assert not rc.r[0] & 2 and not rc.ce
    rig.close()


def t_example_network():
    """port of the network example: a child sends to the master through RF24Network objects"""
    from . import world as W
    m = repo()
    rig = Rig(seed=3, bind=False)
    n0 = rig.world.add_node("m", W.Profile(jitter=0.2))
    n1 = rig.world.add_node("c", W.Profile(spi_overhead=60000, jitter=0.2))
    rig.world.bind(n0)
    r0, r1 = rig.radio("M"), rig.radio("C")
    master = rig.driver(r0, cls=m["rf24_network"].RF24Network, node_address=0)
    W.World.unbind()
    n0.done = True  # not runnable until spawned (else the next constructor would wait for it)
    rig.world.bind(n1)
    child = rig.driver(r1, cls=m["rf24_network"].RF24Network, node_address=0o1)
    W.World.unbind()
    n1.done = True
    n0.t = n1.t = max(n0.t, n1.t, rig.world.now)
    got, res = [], []

    def child_app():
        for i in range(4):
            res.append(child.send(m["structs"].RF24NetworkHeader(0, "T"), bytes([i]) * (10 + 20 * i)))
            n1.idle(3 * MS)
        n1.idle(20 * MS)

    def master_app():
        while True:
            master.update()
            while master.available():
                f = master.read()
                got.append((f.header.from_node, f.header.message_type, bytes(f.message)))
            n0.idle(300 * US)
    rig.world.spawn(n1, child_app)
    rig.world.spawn(n0, master_app, daemon=True)
    assert rig.world.run(60)
    assert n0.exc is None and n1.exc is None, (n0.exc, n1.exc)
    assert res == [True] * 4, res
    assert got == [(0o1, ord("T"), bytes([i]) * (10 + 20 * i)) for i in range(4)], got
    assert not r0.san and not r1.san


def main():
    import faulthandler
    faulthandler.dump_traceback_later(240, exit=True)  # a hanging self-test must never hang setup
    tests = [v for k, v in sorted(globals().items()) if k.startswith("t_")]
    for t in tests:
        t()
    print("vsim selftest: %d scenarios ok" % len(tests))
    return 0


if __name__ == "__main__":
    sys.exit(main())
