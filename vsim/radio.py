"""Executable model of the nRF24L01(+) and of the shared medium (DESIGN §2.1, §2.4).

Assumptions A1..A22 of DESIGN.md are implemented here; the model doubles as the
SPI sanitizer of §3.1 (`SimRadio.san` collects reports, never raises).
"""
from .world import US

# register numbers
CONFIG, EN_AA, EN_RXADDR, SETUP_AW, SETUP_RETR, RF_CH, RF_SETUP, STATUS = range(8)
OBSERVE_TX, RPD = 8, 9
RX_ADDR_P0, TX_ADDR, RX_PW_P0, FIFO_STATUS, DYNPD, FEATURE = 0x0A, 0x10, 0x11, 0x17, 0x1C, 0x1D

RESET_1 = {0: 0x08, 1: 0x3F, 2: 0x03, 3: 0x03, 4: 0x03, 5: 0x02, 6: 0x0E,
           0x11: 0, 0x12: 0, 0x13: 0, 0x14: 0, 0x15: 0, 0x16: 0, 0x1C: 0, 0x1D: 0}
WMASK = {0: 0x7F, 1: 0x3F, 2: 0x3F, 3: 0x03, 4: 0xFF, 5: 0x7F, 6: 0xBF,
         0x11: 0x3F, 0x12: 0x3F, 0x13: 0x3F, 0x14: 0x3F, 0x15: 0x3F, 0x16: 0x3F,
         0x1C: 0x3F, 0x1D: 0x07}
CONFIG_REGS = [0, 1, 2, 3, 4, 5, 6, 0x0A, 0x0B, 0x0C, 0x0D, 0x0E, 0x0F, 0x10,
               0x11, 0x12, 0x13, 0x14, 0x15, 0x16, 0x1C, 0x1D]

T_SETTLE = 130 * US
T_PWRUP = 150 * US


class Packet:
    __slots__ = ("src", "ch", "rate", "aw", "addr", "pid", "noack", "dpl", "payload",
                 "crclen", "kind", "t0", "t1", "attempt", "seq", "src_seq", "outcomes",
                 "corrupt", "for_pkt", "ack", "ackpipe")

    def __init__(self):
        self.outcomes = []
        self.corrupt = False
        self.for_pkt = None
        self.ack = None
        self.ackpipe = None

    def brief(self):
        return {
            "src": self.src.name, "kind": self.kind, "ch": self.ch, "rate": self.rate,
            "addr": self.addr.hex(), "pid": self.pid, "noack": self.noack,
            "len": len(self.payload), "payload": bytes(self.payload).hex(),
            "t0": self.t0, "t1": self.t1, "attempt": self.attempt,
            "outcomes": [(r, o) for r, o in self.outcomes],
        }


def airtime_ns(rate, aw, plen, crclen, pcf=True):
    bits = (1 + aw + plen + crclen) * 8 + (9 if pcf else 0)
    per_bit = {1: 1000, 2: 500, 250: 4000}[rate]
    return bits * per_bit


class Air:
    def __init__(self, world):
        self.world = world
        self.radios = []
        self.log = []
        self.inflight = []
        self.fault = None  # callable(pkt, rx_radio) -> True to drop
        self.collisions = False
        self.keep_log = True
        self.n_packets = 0
        self.carriers = []  # radios emitting a constant carrier
        self.promisc = None  # Phantom answering every otherwise unanswered unicast (A: stub)

    def add(self, radio):
        radio.air = self
        self.radios.append(radio)

    def transmit(self, pkt):
        self.n_packets += 1
        pkt.seq = self.n_packets
        if self.keep_log:
            self.log.append(pkt)
        if self.collisions:
            for p in self.inflight:
                if p.ch == pkt.ch and p.t1 > pkt.t0:
                    p.corrupt = True
                    pkt.corrupt = True
        self.inflight.append(pkt)
        self.world.at(pkt.t1, self._deliver, pkt)

    def _deliver(self, pkt):
        self.inflight.remove(pkt)
        for r in self.radios:
            if r is not pkt.src:
                out = r._hear(pkt)
                if out is not None:
                    pkt.outcomes.append((r.name, out))
        if (self.promisc is not None and pkt.kind == "data" and not pkt.noack
                and not any(o.startswith(("rx:", "dup:")) for _, o in pkt.outcomes)):
            if self.fault is not None and self.fault(pkt, self.promisc):
                pkt.outcomes.append((self.promisc.name, "fault"))  # the stub did not hear it
            else:
                self.promisc.answer(self, pkt)
        pkt.src._tx_air_done(pkt)


class Phantom:
    """promiscuous-ACK stub (DESIGN 2.4): acknowledges any unicast nobody accepted"""
    name = "phantom"

    def __init__(self):
        self.acked = []

    def answer(self, air, pkt):
        ack = Packet()
        ack.src = self
        ack.kind = "ack"
        ack.ch, ack.rate, ack.aw, ack.addr, ack.pid = pkt.ch, pkt.rate, pkt.aw, pkt.addr, pkt.pid
        ack.noack = False
        ack.dpl = True
        ack.payload = b""
        ack.crclen = pkt.crclen
        ack.t0 = pkt.t1 + T_SETTLE
        ack.t1 = ack.t0 + airtime_ns(ack.rate, ack.aw, 0, ack.crclen)
        ack.attempt = pkt.attempt
        ack.for_pkt = pkt
        ack.src_seq = 0
        pkt.ack = ack
        self.acked.append(pkt)
        air.world.at(ack.t0, air.transmit, ack)

    def _tx_air_done(self, pkt):
        pass

    def _hear(self, pkt):
        return None


class FifoEntry:
    __slots__ = ("data", "noack", "pid", "ackpipe")

    def __init__(self, data, noack=False, pid=0, ackpipe=None):
        self.data = data
        self.noack = noack
        self.pid = pid
        self.ackpipe = ackpipe


class SimRadio:
    def __init__(self, world, name="radio", plus=True):
        self.world = world
        self.name = name
        self.plus = plus
        self.air = None
        self.r = dict(RESET_1)
        self.addr = {0x0A: bytearray(b"\xE7" * 5), 0x0B: bytearray(b"\xC2" * 5),
                     0x0C: bytearray(b"\xC3"), 0x0D: bytearray(b"\xC4"),
                     0x0E: bytearray(b"\xC5"), 0x0F: bytearray(b"\xC6"),
                     0x10: bytearray(b"\xE7" * 5)}
        # non-plus "warm" variant (A19): features activated and non-zero
        self.activated = plus
        if not plus:
            self.activated = True
            self.r[FEATURE] = 5
            self.r[DYNPD] = 0x3F
        self.flags = 0  # STATUS bits 6..4
        self.ce = False
        self.tx_fifo = []
        self.rx_fifo = []  # (pipe, bytes)
        self.reuse = False
        self.pid_ctr = 0
        self.last_rx = None
        self.arc_cnt = 0
        self.plos_cnt = 0
        self.rpd = 0
        self.powered = False
        self.pwr_ready = 0
        self.rx_since = None
        self.act = None  # None | 'tx' | 'ackwait' | 'acktx'
        self.cur = None
        self.cur_pkt = None
        self.want_ack = False
        self.attempt = 0
        self.src_seq = 0
        self.timer = None
        self.ack_pending = None
        self.ack_timed_out = False
        self.ack_listen_from = 0
        self.ack_inflight = {}
        self.irq_waiters = []
        self.rx_waiters = []
        self._amap = None  # cache: address prefix -> lowest enabled pipe
        self.irq_log = None
        self._irq = True
        self.carrier = False
        # sanitizer / trace
        self.san = []
        self.ops = []
        self.trace_on = True
        self.n_cmds = 0
        self.ce_log = []  # (t, value, config) for CE clauses
        self.cfg_writes = []  # (t, old, new, ce)
        self.txn_log = []  # finished PTX transactions: dict
        self.states = set()
        # observation counters
        self.last_status_out = 0x0E

    # ------------------------------------------------------------------
    # derived values
    def status(self):
        pno = self.rx_fifo[0][0] if self.rx_fifo else 7
        return self.flags | (pno << 1) | (1 if len(self.tx_fifo) >= 3 else 0)

    def fifo_status(self):
        v = 0
        if self.reuse:
            v |= 0x40
        if len(self.tx_fifo) >= 3:
            v |= 0x20
        if not self.tx_fifo:
            v |= 0x10
        if len(self.rx_fifo) >= 3:
            v |= 0x02
        if not self.rx_fifo:
            v |= 0x01
        return v

    def config_effective(self):
        c = self.r[CONFIG]
        if self.r[EN_AA]:
            c |= 0x08  # A5
        return c

    def crclen(self):
        c = self.config_effective()
        if not c & 0x08:
            return 0
        return 2 if c & 0x04 else 1

    def aw(self):
        return (self.r[SETUP_AW] & 3) + 2

    def rate(self):
        v = self.r[RF_SETUP] & 0x28
        return 250 if v & 0x20 else (2 if v else 1)

    def irq_level(self):
        """True = IRQ pin high (inactive); active low (A17)"""
        masked = (~self.r[CONFIG]) & 0x70
        return not (self.flags & masked)

    def pipe_addr(self, p):
        """effective full 5-byte RX address of pipe p (A7)"""
        if p < 2:
            return bytes(self.addr[0x0A + p])
        return bytes(self.addr[0x0A + p][:1]) + bytes(self.addr[0x0B][1:])

    def snapshot(self):
        """38 configuration bytes + pins/FIFO state, read from ground truth"""
        cfg = bytearray()
        for reg in CONFIG_REGS:
            if reg in self.addr:
                cfg += self.addr[reg]
            elif reg == CONFIG:
                cfg.append(self.config_effective())
            else:
                cfg.append(self.r[reg])
        return {
            "cfg": bytes(cfg),
            "ce": self.ce,
            "irq": self.irq_level(),
            "flags": self.flags,
            "tx": [(bytes(e.data), e.ackpipe, e.noack) for e in self.tx_fifo],
            "rx": [(p, bytes(d)) for p, d in self.rx_fifo],
        }

    def reg_view(self):
        d = dict(self.r)
        d[CONFIG] = self.config_effective()
        for k, v in self.addr.items():
            d[k] = bytes(v)
        return d

    # ------------------------------------------------------------------
    def _san(self, kind, detail):
        self.san.append((kind, detail, self.world.now))

    def _set_flags(self, bits):
        self.flags |= bits
        self._irq_update()

    def _irq_update(self):
        lvl = self.irq_level()
        if lvl != self._irq:
            self._irq = lvl
            if self.irq_log is not None:
                self.irq_log.append((self.world.now, lvl))
            if not lvl and self.irq_waiters:
                for n in list(self.irq_waiters):
                    n.irq_fired()

    # ------------------------------------------------------------------
    # SPI
    def command(self, out):
        n = len(out)
        st = self.status()
        self.last_status_out = st
        resp = bytearray(n)
        if n == 0:
            return resp
        resp[0] = st
        c = out[0]
        data = bytes(out[1:])
        self.n_cmds += 1
        if self.trace_on:
            self.ops.append((c, data))
        if c < 0x20:  # R_REGISTER
            val = self._read_reg(c)
            for i in range(1, n):
                resp[i] = val[min(i - 1, len(val) - 1)]
        elif c < 0x40:  # W_REGISTER
            self._write_reg(c & 0x1F, data)
        elif c == 0x61:  # R_RX_PAYLOAD
            self._read_rx(resp, n)
        elif c == 0xA0 or c == 0xB0:
            self._load_tx(data, noack=(c == 0xB0))
        elif 0xA8 <= c <= 0xAF:
            p = c & 7
            if p > 5:
                self._san("ack_payload_pipe", "W_ACK_PAYLOAD pipe %d" % p)
            else:
                self._load_tx(data, ackpipe=p)
        elif c == 0xE1:
            self.tx_fifo.clear()
            self.ack_inflight.clear()
            self.reuse = False
            if n != 1:
                self._san("cmd_length", "FLUSH_TX with %d data bytes" % (n - 1))
        elif c == 0xE2:
            self.rx_fifo.clear()
            if n != 1:
                self._san("cmd_length", "FLUSH_RX with %d data bytes" % (n - 1))
        elif c == 0xE3:
            self.reuse = True
        elif c == 0x60:
            w = len(self.rx_fifo[0][1]) if self.rx_fifo else 0
            for i in range(1, n):
                resp[i] = w
        elif c == 0xFF:
            if n != 1:
                self._san("cmd_length", "NOP with %d data bytes" % (n - 1))
        elif c == 0x50:
            if n == 2 and data[0] == 0x73:
                if not self.plus:
                    self.activated = not self.activated
            else:
                self._san("cmd_unknown", "ACTIVATE with data %s" % data.hex())
        else:
            self._san("cmd_unknown", "command byte 0x%02X" % c)
        self._reeval()
        return resp

    def _read_reg(self, reg):
        if reg in self.addr:
            return bytes(self.addr[reg])
        if reg == STATUS:
            return bytes([self.status()])
        if reg == OBSERVE_TX:
            return bytes([(self.plos_cnt << 4) | self.arc_cnt])
        if reg == RPD:
            return bytes([self.rpd])
        if reg == FIFO_STATUS:
            return bytes([self.fifo_status()])
        if reg == CONFIG:
            return bytes([self.config_effective()])
        if reg in (DYNPD, FEATURE) and not self.activated:
            return b"\0"
        return bytes([self.r.get(reg, 0)])

    def _write_reg(self, reg, data):
        if not data:
            self._san("reg_length", "W_REGISTER 0x%02X without data" % reg)
            return
        if reg in self.addr:
            self._amap = None
            width = len(self.addr[reg])
            if len(data) > width:
                self._san("reg_length", "%d bytes written to %d-byte register 0x%02X"
                          % (len(data), width, reg))
                data = data[:width]
            self.addr[reg][: len(data)] = data
            return
        if len(data) > 1:
            self._san("reg_length", "%d bytes written to 1-byte register 0x%02X"
                      % (len(data), reg))
        v = data[0]
        if reg == STATUS:
            if v & 0x80:
                self._san("reserved_bits", "STATUS write 0x%02X" % v)
            self.flags &= ~(v & 0x70)
            self._irq_update()
            return
        if reg in (OBSERVE_TX, RPD):
            self._san("readonly_reg", "W_REGISTER to read-only 0x%02X" % reg)
            return
        if reg == FIFO_STATUS:
            if self.plus:
                self._san("readonly_reg", "W_REGISTER to FIFO_STATUS")
            else:
                self.reuse = bool(v & 0x40)  # A19
            return
        if reg not in WMASK:
            self._san("unknown_reg", "W_REGISTER to 0x%02X" % reg)
            return
        if v & ~WMASK[reg] & 0xFF:
            self._san("reserved_bits", "reg 0x%02X <- 0x%02X (mask 0x%02X)"
                      % (reg, v, WMASK[reg]))
        if reg == RF_CH and v > 125:
            self._san("out_of_range", "RF_CH <- %d" % v)
        if 0x11 <= reg <= 0x16 and (v & 0x3F) > 32:
            self._san("out_of_range", "RX_PW_P%d <- %d" % (reg - 0x11, v))
        if reg == RF_SETUP and (v & 0x28) == 0x28:
            self._san("reserved_bits", "RF_SETUP data-rate bits '11' (0x%02X)" % v)
        if reg in (DYNPD, FEATURE) and not self.activated:
            return
        v &= WMASK[reg]
        if reg == CONFIG:
            old = self.r[CONFIG]
            self.cfg_writes.append((self.world.now, old, v, self.ce))
        if reg == RF_CH:
            self.plos_cnt = 0
        if reg == EN_RXADDR or reg == SETUP_AW:
            self._amap = None
        self.r[reg] = v
        if reg == CONFIG:
            self._irq_update()

    def _read_rx(self, resp, n):
        # byte stream over the FIFO; a payload is popped only when wholly fetched (A3)
        want = n - 1
        stream = bytearray()
        npop = 0
        for _, d in self.rx_fifo:
            if len(stream) + len(d) <= want:
                stream += d
                npop += 1
            else:
                stream += d[: want - len(stream)]
                break
            if len(stream) >= want:
                break
        last = 0
        for i in range(1, n):
            if i - 1 < len(stream):
                last = stream[i - 1]
            resp[i] = last
        if npop:
            del self.rx_fifo[:npop]

    def _load_tx(self, data, noack=False, ackpipe=None):
        if not data:
            self._san("payload_length", "empty payload written (ackpipe=%s)" % ackpipe)
            return
        if len(data) > 32:
            self._san("payload_length", "%d-byte payload written" % len(data))
            data = data[:32]
        if len(self.tx_fifo) >= 3:
            return  # A3: discarded
        self.pid_ctr = (self.pid_ctr + 1) & 3
        self.tx_fifo.append(FifoEntry(data, noack, self.pid_ctr, ackpipe))
        self.reuse = False

    # ------------------------------------------------------------------
    # pins
    def set_ce(self, v):
        v = bool(v)
        if v != self.ce:
            self.ce = v
            self.ce_log.append((self.world.now, v, self.r[CONFIG]))
            self._reeval()

    # ------------------------------------------------------------------
    # mode machine (A8)
    def _reeval(self):
        cfg = self.r[CONFIG]
        now = self.world.now
        if not cfg & 2:
            if self.powered:
                self.powered = False
                self._abort()
            self.rx_since = None
            self._update_carrier()
            return
        if not self.powered:
            self.powered = True
            self.pwr_ready = now + T_PWRUP
        if cfg & 1:  # PRX
            if self.ce:
                if self.rx_since is None and self.act is None:
                    self.rx_since = max(now, self.pwr_ready) + T_SETTLE
                    self.rpd = 0
                    if self.air is not None:
                        for c in self.air.carriers:
                            if c is not self and c.r[RF_CH] == self.r[RF_CH]:
                                self.rpd = 1
            elif self.act != "acktx":
                self.rx_since = None
        else:
            self.rx_since = None
            if (self.act is None and self.ce and self.tx_fifo
                    and not self.flags & 0x10):
                self._start_tx()
        self._update_carrier()
        if len(self.states) < 4096:
            self.states.add((cfg & 3, self.ce, len(self.tx_fifo), len(self.rx_fifo),
                             self.flags, self.act))

    def _update_carrier(self):
        on = bool(self.powered and self.ce and not (self.r[CONFIG] & 1)
                  and (self.r[RF_SETUP] & 0x90) == 0x90)
        if on != self.carrier:
            self.carrier = on
            if self.air is not None:
                if on:
                    self.air.carriers.append(self)
                    for r in self.air.radios:
                        r._carrier_seen(self)
                elif self in self.air.carriers:
                    self.air.carriers.remove(self)

    def _carrier_seen(self, src):
        if (src is not self and self.rx_since is not None
                and src.r[RF_CH] == self.r[RF_CH]):
            self.rpd = 1

    def _abort(self):
        World_cancel(self.timer)
        self.timer = None
        self.act = None
        self.cur = None
        self.ack_pending = None

    def _start_tx(self):
        self.act = "tx"
        self.cur = self.tx_fifo[0]
        self.arc_cnt = 0
        self.attempt = 0
        t_air = max(self.world.now, self.pwr_ready) + T_SETTLE
        self.timer = self.world.at(t_air, self._air_start)

    def _air_start(self):
        self.timer = None
        if self.act != "tx" or not self.powered:
            return
        e = self.cur
        pkt = Packet()
        pkt.src = self
        pkt.kind = "data"
        pkt.ch = self.r[RF_CH]
        pkt.rate = self.rate()
        pkt.aw = self.aw()
        pkt.addr = bytes(self.addr[TX_ADDR][: pkt.aw])
        pkt.pid = e.pid
        feat = self.r[FEATURE] if self.activated else 0
        dynpd = self.r[DYNPD] if self.activated else 0
        pkt.noack = bool(e.noack and feat & 1)  # A4
        pkt.dpl = bool(feat & 4 and dynpd & 1)
        pkt.payload = bytes(e.data)
        pkt.crclen = self.crclen()
        pkt.t0 = self.world.now
        pkt.t1 = pkt.t0 + airtime_ns(pkt.rate, pkt.aw, len(pkt.payload), pkt.crclen)
        pkt.attempt = self.attempt
        self.src_seq += 1
        pkt.src_seq = self.src_seq
        pkt.ackpipe = e.ackpipe
        self.want_ack = bool(self.r[EN_AA] & 1 and not pkt.noack)
        self.cur_pkt = pkt
        self.air.transmit(pkt)

    def _tx_air_done(self, pkt):
        if pkt.kind == "ack":
            # PRX finished sending an ACK
            if self.act == "acktx":
                self.act = None
                if self.rx_since is not None:
                    self.rx_since = self.world.now + T_SETTLE
                self._reeval()
            return
        if self.act != "tx" or pkt is not self.cur_pkt:
            return
        if not self.want_ack:
            self._finish_tx(True, None)
            return
        self.act = "ackwait"
        self.ack_pending = None
        self.ack_timed_out = False
        self.ack_listen_from = pkt.t1 + T_SETTLE
        ard = ((self.r[SETUP_RETR] >> 4) + 1) * 250 * US
        self.timer = self.world.at(pkt.t1 + ard, self._ack_timeout)

    def _ack_matches(self, p):
        """A10: would this ACK be picked up by the waiting PTX?"""
        cp = self.cur_pkt
        aw = self.aw()
        return (p.kind == "ack" and p.for_pkt is cp and p.ch == self.r[RF_CH]
                and p.rate == self.rate() and p.t0 >= self.ack_listen_from
                and self.r[EN_RXADDR] & 1
                and bytes(self.addr[RX_ADDR_P0][:aw]) == bytes(self.addr[TX_ADDR][:aw])
                and p.addr == bytes(self.addr[TX_ADDR][:aw]))

    def _ack_timeout(self):
        self.timer = None
        if self.act != "ackwait":
            return
        # an ACK whose address field is already in is waited for (A10)
        per_bit = {1: 1000, 2: 500, 250: 4000}[self.rate()]
        for p in self.air.inflight:
            if self._ack_matches(p) and p.t0 + (1 + p.aw) * 8 * per_bit <= self.world.now:
                self.ack_pending = p
                return
        self._no_ack()

    def _no_ack(self):
        arc = self.r[SETUP_RETR] & 0x0F
        if self.arc_cnt < arc:
            self.arc_cnt += 1
            self.attempt += 1
            self.act = "tx"
            self.timer = self.world.at(self.world.now + T_SETTLE, self._air_start)
        else:
            self.plos_cnt = min(15, self.plos_cnt + 1)
            self._finish_tx(False, None)

    def _finish_tx(self, ok, ack):
        e = self.cur
        pkt = self.cur_pkt
        self.act = None
        self.cur = None
        self.ack_pending = None
        rec = {"t": self.world.now, "ok": ok, "payload": bytes(e.data), "pid": e.pid,
               "attempts": self.attempt + 1, "ack": None, "stored": None}
        if ok:
            if e in self.tx_fifo and not self.reuse:
                self.tx_fifo.remove(e)
            bits = 0x20
            if ack is not None and ack.payload:
                rec["ack"] = bytes(ack.payload)
                self.rx_fifo.append((0, bytes(ack.payload)))
                rec["stored"] = True
                bits |= 0x40
            self._set_flags(bits)
        else:
            self._set_flags(0x10)
        if len(self.txn_log) < 100000:
            self.txn_log.append(rec)
        self._reeval()

    # ------------------------------------------------------------------
    # reception
    def _hear(self, pkt):
        if pkt.corrupt:
            if self.ack_pending is pkt:
                self.ack_pending = None
                self._no_ack()
            return "collision"
        if self.act == "ackwait" and pkt.kind == "ack":
            if not self._ack_matches(pkt):
                return None
            if self.air.fault is not None and self.air.fault(pkt, self):
                if self.ack_pending is pkt:
                    self.ack_pending = None
                    self._no_ack()
                return "fault"
            # payload-bearing ACK needs DPL on pipe 0 and FIFO room (A15)
            if pkt.payload:
                feat = self.r[FEATURE] if self.activated else 0
                dynpd = self.r[DYNPD] if self.activated else 0
                if not (feat & 4 and dynpd & 1) or len(self.rx_fifo) >= 3:
                    if self.ack_pending is pkt:
                        self.ack_pending = None
                        self._no_ack()
                    return "ack_payload_unstorable"
            World_cancel(self.timer)
            self.timer = None
            self._finish_tx(True, pkt)
            return "ack_ok"
        if pkt.kind == "ack":
            return None
        cfg = self.r[CONFIG]
        if pkt.ch != self.r[RF_CH]:
            return None
        if not (self.powered and cfg & 1 and self.ce):
            # not receiving: record "deaf" when one of its open pipes was addressed
            if self.powered and pkt.aw == self.aw():
                en = self.r[EN_RXADDR]
                for p in range(1 if not cfg & 1 else 0, 6):
                    if en & (1 << p) and self.pipe_addr(p)[: pkt.aw] == pkt.addr:
                        return "deaf"
            return None
        if self.rx_since is None or self.rx_since > pkt.t0 or self.act is not None:
            return "deaf"
        if pkt.t1 - pkt.t0 >= 40 * US:
            self.rpd = 1
        if pkt.rate != self.rate() or pkt.aw != self.aw() or pkt.crclen != self.crclen():
            return "cfg_mismatch"
        aw = pkt.aw
        amap = self._amap
        if amap is None:
            amap = self._amap = {}
            en = self.r[EN_RXADDR]
            for p in range(5, -1, -1):
                if en & (1 << p):
                    amap[self.pipe_addr(p)[:aw]] = p
        pipe = amap.get(pkt.addr)
        if pipe is None:
            return None
        if self.air.fault is not None and self.air.fault(pkt, self):
            return "fault"
        feat = self.r[FEATURE] if self.activated else 0
        dynpd = self.r[DYNPD] if self.activated else 0
        if feat & 4 and dynpd & (1 << pipe):
            if not pkt.dpl:
                return "len_mode"
        else:
            if len(pkt.payload) != self.r[RX_PW_P0 + pipe] or not pkt.payload:
                return "len_mismatch"
        if len(self.rx_fifo) >= 3:
            return "rx_full"
        aa = bool(self.r[EN_AA] & (1 << pipe))
        ident = (pkt.pid, pkt.addr, pkt.payload)
        dup = aa and self.last_rx == ident
        self.last_rx = ident
        if not dup:
            self.rx_fifo.append((pipe, pkt.payload))
            self._set_flags(0x40)
            if self.rx_waiters:
                for n in list(self.rx_waiters):
                    n.irq_fired()
        if aa and not pkt.noack:
            self._send_ack(pkt, pipe, dup, feat, dynpd)
        return "dup:%d" % pipe if dup else "rx:%d" % pipe

    def _send_ack(self, pkt, pipe, dup, feat, dynpd):
        ackpl = b""
        if feat & 2 and feat & 4 and dynpd & (1 << pipe):
            if dup:
                e = self.ack_inflight.get(pipe)
                if e is not None:
                    ackpl = e.data
            else:
                old = self.ack_inflight.pop(pipe, None)
                if old is not None:
                    if old in self.tx_fifo:
                        self.tx_fifo.remove(old)
                    self._set_flags(0x20)
                for e in self.tx_fifo:
                    if e.ackpipe == pipe:
                        self.ack_inflight[pipe] = e
                        ackpl = e.data
                        break
        ack = Packet()
        ack.src = self
        ack.kind = "ack"
        ack.ch = pkt.ch
        ack.rate = pkt.rate
        ack.aw = pkt.aw
        ack.addr = pkt.addr
        ack.pid = pkt.pid
        ack.noack = False
        ack.dpl = True
        ack.payload = bytes(ackpl)
        ack.crclen = pkt.crclen
        ack.t0 = pkt.t1 + T_SETTLE
        ack.t1 = ack.t0 + airtime_ns(ack.rate, ack.aw, len(ack.payload), ack.crclen)
        ack.attempt = pkt.attempt
        ack.for_pkt = pkt
        ack.src_seq = 0
        pkt.ack = ack
        self.act = "acktx"
        self.world.at(ack.t0, self._ack_air_start, ack)

    def _ack_air_start(self, ack):
        if not self.powered:
            self.act = None
            return
        self.air.transmit(ack)

    # ------------------------------------------------------------------
    # test helpers (harness side, not part of the chip)
    def inject_rx(self, pipe, payload):
        """place a payload in the RX FIFO as if it had been received"""
        if len(self.rx_fifo) >= 3:
            return False
        self.rx_fifo.append((pipe, bytes(payload)))
        self._set_flags(0x40)
        if self.rx_waiters:
            for n in list(self.rx_waiters):
                n.irq_fired()
        return True


def World_cancel(h):
    if h is not None:
        h[4] = False
