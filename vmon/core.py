"""Check framework: shard runner, verdicts, evidence, known findings, replay.

A check module (checks/cXX.py) defines
    PROP = "C01"
    RULE = "<how cases are generated / what is non-trivial>"
    REQUIRED = {"clause": min_evaluations, ...}     # starved clause => inconclusive
    ASSUMPTIONS = [...]
    def gen_cases(ctx)            -> iterable of JSON-serialisable case dicts
    def run_case(ctx, case)       -> None   (uses ctx.* to report)
  or, for full control,
    def run_shard(ctx)            -> None
Optional: KEYS = {key: description} documents the classifier's mechanism keys.
"""
import hashlib
import json
import os
import random
import subprocess
import sys
import time
import traceback

from vsim import world as W

VERIF = os.path.dirname(os.path.dirname(os.path.abspath(__file__)))
PY = sys.executable


def _h(obj):
    return hashlib.blake2b(repr(obj).encode(), digest_size=8).hexdigest()


class Ctx:
    def __init__(self, prop, tier, seed, shard, nshards, budget_s):
        self.prop = prop
        self.tier = tier
        self.seed = seed
        self.shard = shard
        self.nshards = nshards
        self.budget_s = budget_s
        self.t_start = W.REAL_MONOTONIC()
        self.rng = random.Random((seed << 20) ^ (shard * 7919) ^ 0x5EED)
        self.stats = {}
        self.clauses = {}
        self.sigs = set()
        self.samples = []
        self.violations = {}  # key -> list of witnesses (max 3)
        self.vcount = {}
        self.evaluations = 0
        self.stopped_by_budget = False
        self.replaying = False
        self.cross = {}
        self.dsets = {}

    # reporting -----------------------------------------------------------
    def count(self, name, n=1):
        self.stats[name] = self.stats.get(name, 0) + n

    def clause(self, name, n=1):
        self.clauses[name] = self.clauses.get(name, 0) + n

    def nontrivial(self, sig):
        self.sigs.add(_h(sig))

    def sample(self, obj, limit=4):
        if len(self.samples) < limit:
            self.samples.append(obj)

    def violation(self, key, msg, case=None, witness=None):
        self.vcount[key] = self.vcount.get(key, 0) + 1
        lst = self.violations.setdefault(key, [])
        if len(lst) < 2:
            lst.append({"msg": msg, "case": case, "witness": witness})

    def distinct(self, name, value):
        """count distinct observed values (e.g. digests of on-air event orders) across shards"""
        self.dsets.setdefault(name, set()).add(_h(value))

    def cross_obs(self, prop, key, msg):
        d = self.cross.setdefault(prop + "/" + key, {"n": 0, "first": msg})
        d["n"] += 1

    def out_of_time(self):
        if W.REAL_MONOTONIC() - self.t_start > self.budget_s:
            self.stopped_by_budget = True
            return True
        return False

    def sub_rng(self, *tag):
        return random.Random(_h((self.seed,) + tag))

    def result(self):
        return {
            "stats": self.stats, "clauses": self.clauses, "sigs": sorted(self.sigs),
            "samples": self.samples, "violations": self.violations,
            "vcount": self.vcount, "evaluations": self.evaluations,
            "stopped_by_budget": self.stopped_by_budget, "cross": self.cross,
            "dsets": {k: sorted(v) for k, v in self.dsets.items()},
            "wall_s": W.REAL_MONOTONIC() - self.t_start,
        }


def load_module(prop):
    import importlib
    return importlib.import_module("checks." + prop.lower())


def run_shard_main(prop, tier, seed, shard, nshards, budget_s, out_path):
    mod = load_module(prop)
    ctx = Ctx(prop, tier, seed, shard, nshards, budget_s)
    try:  # one core per shard: baton hand-offs between node threads are ~5x cheaper
        cpus = sorted(os.sched_getaffinity(0))
        os.sched_setaffinity(0, {cpus[shard % len(cpus)]})
    except (AttributeError, OSError):
        pass
    cov_hits = None
    if os.environ.get("VERIF_COVER") and hasattr(sys, "monitoring"):
        # which lines of the library does this workload execute at all? (tools/libcover.py)
        cov_hits = set()
        repo_dir = os.path.realpath(os.environ.get("VERIF_REPO", "/repo")) + os.sep
        monitoring = sys.monitoring

        def _line(code, line):
            if code.co_filename.startswith(repo_dir):
                cov_hits.add((code.co_filename[len(repo_dir):], line))
            return monitoring.DISABLE
        monitoring.use_tool_id(monitoring.COVERAGE_ID, "verif-libcover")
        monitoring.register_callback(monitoring.COVERAGE_ID, monitoring.events.LINE, _line)
        monitoring.set_events(monitoring.COVERAGE_ID, monitoring.events.LINE)
    try:
        if hasattr(mod, "run_shard"):
            mod.run_shard(ctx)
        else:
            for i, case in enumerate(mod.gen_cases(ctx)):
                if i % nshards != shard:
                    continue
                if ctx.out_of_time():
                    break
                ctx.evaluations += 1
                try:
                    mod.run_case(ctx, case)
                except Exception as e:
                    # an exception that escapes a scenario: raised inside the library by a call
                    # the scenario expects to succeed -> an observation about the library; raised
                    # by the harness itself -> no verdict (the run ends inconclusive)
                    tb = traceback.extract_tb(e.__traceback__)
                    repo_dir = os.path.realpath(os.environ.get("VERIF_REPO", "/repo"))
                    in_lib = bool(tb) and os.path.realpath(tb[-1].filename).startswith(repo_dir + os.sep)
                    key = ("library-raised/%s" % type(e).__name__) if in_lib else "HARNESS-ERROR"
                    ctx.count("harness_errors" if not in_lib else "library_exceptions")
                    lst = ctx.violations.setdefault(key, [])
                    if len(lst) < 3:
                        lst.append({"msg": traceback.format_exc()[-1500:], "case": case, "witness": None})
                    ctx.vcount[key] = ctx.vcount.get(key, 0) + 1
                    if ctx.vcount[key] > 3 and not in_lib:
                        break
    except Exception:
        ctx.violations.setdefault("HARNESS-ERROR", []).append(
            {"msg": traceback.format_exc()[-3000:], "case": None, "witness": None})
        ctx.vcount["HARNESS-ERROR"] = ctx.vcount.get("HARNESS-ERROR", 0) + 1
    if cov_hits is not None:
        with open(os.path.join(os.environ["VERIF_COVER"], "%s-%d.json" % (prop, shard)), "w") as f:
            json.dump(sorted(cov_hits), f)
    with open(out_path, "w") as f:
        json.dump(ctx.result(), f, default=_json_default)


def _json_default(o):
    if isinstance(o, (bytes, bytearray)):
        return "hex:" + bytes(o).hex()
    if isinstance(o, set):
        return sorted(o)
    return repr(o)


def load_known():
    p = os.path.join(VERIF, "known_findings.json")
    if not os.path.exists(p):
        return []
    with open(p) as f:
        return json.load(f)["findings"]


def main(argv=None):
    import argparse
    ap = argparse.ArgumentParser()
    ap.add_argument("prop")
    ap.add_argument("--tier", default=os.environ.get("VERIF_TIER", "quick"))
    ap.add_argument("--seed", type=int, default=int(os.environ.get("VERIF_SEED", "0")))
    ap.add_argument("--shards", type=int, default=0)
    ap.add_argument("--replay")
    ap.add_argument("--_shard", type=int, default=-1)
    ap.add_argument("--_out")
    ap.add_argument("--budget", type=float, default=0.0)
    args = ap.parse_args(argv)
    prop = args.prop.upper()
    tier = args.tier if args.tier in ("quick", "thorough") else "quick"
    mod = load_module(prop)
    budget = args.budget or float(getattr(mod, "BUDGET", {}).get(tier, 150 if tier == "quick" else 900))
    nshards = args.shards or int(getattr(mod, "SHARDS", {}).get(tier, 16))

    if args._shard >= 0:
        run_shard_main(prop, tier, args.seed, args._shard, nshards, budget, args._out)
        return 0

    if args.replay:
        return replay(prop, mod, tier, args.seed, args.replay)

    t0 = time.monotonic()
    outdir = os.path.join(os.environ.get("VERIF_SCRATCH") or os.path.join(VERIF, "out"), "shards")
    os.makedirs(outdir, exist_ok=True)
    procs = []
    env = dict(os.environ)
    env["PYTHONHASHSEED"] = "0"
    env["PYTHONPATH"] = VERIF + os.pathsep + env.get("PYTHONPATH", "")
    env["NRF24L01_VERIF"] = "1"
    for s in range(nshards):
        outp = os.path.join(outdir, "%s-%s-%d.json" % (prop, tier, s))
        if os.path.exists(outp):
            os.unlink(outp)
        cmd = [PY, "-m", "vmon.core", prop, "--tier", tier, "--seed", str(args.seed),
               "--shards", str(nshards), "--_shard", str(s), "--_out", outp,
               "--budget", str(budget)]
        procs.append((s, outp, subprocess.Popen(cmd, cwd=VERIF, env=env,
                                                stdout=subprocess.PIPE, stderr=subprocess.STDOUT)))
    results = []
    crashed = []
    hard = budget * 5 + 60
    for s, outp, p in procs:
        try:
            out, _ = p.communicate(timeout=max(5.0, hard - (time.monotonic() - t0)))
        except subprocess.TimeoutExpired:
            p.kill()
            out, _ = p.communicate()
            crashed.append((s, "watchdog"))
            continue
        if p.returncode != 0 or not os.path.exists(outp):
            crashed.append((s, "exit %s: %s" % (p.returncode, out.decode(errors="replace")[-800:])))
            continue
        with open(outp) as f:
            results.append(json.load(f))
        os.unlink(outp)
    return finish(prop, mod, tier, args.seed, results, crashed, time.monotonic() - t0, nshards)


def finish(prop, mod, tier, seed, results, crashed, wall, nshards):
    stats, clauses, vcount, cross = {}, {}, {}, {}
    sigs = set()
    dsets = {}
    samples = []
    violations = {}
    evaluations = 0
    stopped = 0
    for r in results:
        for k, v in r["stats"].items():
            stats[k] = stats.get(k, 0) + v
        for k, v in r["clauses"].items():
            clauses[k] = clauses.get(k, 0) + v
        for k, v in r["vcount"].items():
            vcount[k] = vcount.get(k, 0) + v
        for k, v in r["cross"].items():
            d = cross.setdefault(k, {"n": 0, "first": v["first"]})
            d["n"] += v["n"]
        sigs.update(r["sigs"])
        for k, v in r.get("dsets", {}).items():
            dsets.setdefault(k, set()).update(v)
        for s in r["samples"]:
            if len(samples) < 5:
                samples.append(s)
        for k, lst in r["violations"].items():
            violations.setdefault(k, []).extend(lst)
        evaluations += r["evaluations"]
        stopped += bool(r["stopped_by_budget"])
    known = {k["key"]: k for k in load_known() if k["property"] == prop and k["status"] == "known"}
    fixed = {k["key"]: k for k in load_known() if k["property"] == prop and k["status"] == "fixed"}
    replay_dir = os.environ.get("VERIF_REPLAY_DIR") or os.path.join(VERIF, "out", "replay")
    os.makedirs(replay_dir, exist_ok=True)
    lines = []
    new_keys = []
    known_hit = []
    harness_broken = False
    for key in sorted(violations):
        wit = violations[key][0]
        path = os.path.join(replay_dir, "%s-%s.json" % (prop, key.replace("/", "_")))
        with open(path, "w") as f:
            json.dump({"property": prop, "key": key, "tier": tier, "seed": seed,
                       "count": vcount.get(key, 0), "witnesses": violations[key][:3]},
                      f, indent=1, default=_json_default)
        if key == "HARNESS-ERROR":
            harness_broken = True
            lines.append("HARNESS-ERROR property=%s (no verdict) %s: %s" % (
                prop, path, (wit["msg"] or "")[-400:].replace("\n", " | ")))
        elif key in known:
            known_hit.append(key)
            lines.append("KNOWN-FINDING: property=%s key=%s %s (seen %d times; e.g. %s)"
                         % (prop, key, known[key]["what"], vcount.get(key, 0),
                            (wit["msg"] or "")[:160].replace("\n", " ")))
        else:
            new_keys.append(key)
            lines.append("VIOLATION property=%s replay=%s" % (prop, path))
            lines.append("  key=%s count=%d%s: %s" % (
                key, vcount.get(key, 0),
                " (was recorded as fixed: regression)" if key in fixed else "",
                (wit["msg"] or "")[:600].replace("\n", " | ")))
    required = getattr(mod, "REQUIRED", {})
    starved = [c for c, n in required.items() if clauses.get(c, 0) < n]
    inconclusive = bool(crashed) or bool(starved) or not results or harness_broken
    distinct = len(sigs)
    coverage = {
        "evaluations": max(evaluations, stats.get("evaluations", 0)),
        "distinct_nontrivial": distinct,
        "rule": getattr(mod, "RULE", ""),
        "samples": samples[:5],
        "clause_evaluations": clauses,
        "counters": stats,
        "distinct_observed": {k: len(v) for k, v in dsets.items()},
        "shards": nshards,
        "shards_stopped_by_wall_budget": stopped,
        "shards_crashed": [c[0] for c in crashed],
        "starved_clauses": starved,
        "known_findings_hit": known_hit,
        "violation_keys": {k: vcount.get(k, 0) for k in violations},
        "cross_property_observations": cross,
        "verdict": ("violated" if new_keys else ("inconclusive" if inconclusive else "held")),
    }
    if hasattr(mod, "EXHAUSTIVE") and mod.EXHAUSTIVE.get(tier) and not stopped and not crashed:
        coverage["exhaustive"] = True
        coverage["exhaustive_over"] = mod.EXHAUSTIVE[tier]
    ev = {
        "property_id": prop, "tier": tier, "seed": seed, "level": "exploration",
        "coverage": coverage,
        "assumptions": list(getattr(mod, "ASSUMPTIONS", [])) + [
            "simulated nRF24L01(+) model, assumptions A1-A25 of DESIGN.md sections 2.1 and 10.2",
            "virtual clock; MCU cost profiles and jitter are part of each recorded case"],
        "wall_s": round(wall, 2),
        "violations": sum(vcount.get(k, 0) for k in new_keys),
    }
    evdir = os.environ.get("VERIF_EVIDENCE_DIR") or os.path.join(VERIF, "evidence")
    os.makedirs(evdir, exist_ok=True)
    with open(os.path.join(evdir, prop + ".json"), "w") as f:
        json.dump(ev, f, indent=1, default=_json_default)
    for ln in lines:
        print(ln)
    print("%s tier=%s seed=%d evaluations=%d distinct_nontrivial=%d wall=%.1fs clauses=%s"
          % (prop, tier, seed, coverage["evaluations"], distinct, wall,
             json.dumps(clauses, sort_keys=True)))
    if crashed:
        for s, why in crashed:
            print("shard %d crashed/timed out: %s" % (s, why))
    if new_keys:
        return 1
    if inconclusive:
        print("INCONCLUSIVE property=%s starved=%s crashed=%d" % (prop, starved, len(crashed)))
        return 2
    return 0


def replay(prop, mod, tier, seed, path):
    with open(path) as f:
        rep = json.load(f)
    ctx = Ctx(prop, tier, rep.get("seed", seed), 0, 1, 3600)
    ctx.replaying = True
    n = 0
    for wit in rep.get("witnesses", []):
        case = wit.get("case")
        if case is None:
            continue
        n += 1
        mod.run_case(ctx, case)
    print("replayed %d case(s); violations now: %s" % (n, json.dumps(ctx.vcount)))
    for k, lst in ctx.violations.items():
        print("  %s: %s" % (k, lst[0]["msg"][:800]))
    return 1 if ctx.vcount else 0


if __name__ == "__main__":
    sys.exit(main())
