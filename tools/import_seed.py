#!/usr/bin/env python3
"""Imports the two changes a sub-agent left in <worktree>/_seed into /verif/seeded/<prop>-<n>/ and
removes the worktree.  usage: import_seed.py PROP WORKTREE ROUND 'what1' 'needs1' 'what2' 'needs2'"""
import json, os, shutil, subprocess, sys
prop, wt, rnd, w1, n1, w2, n2 = sys.argv[1:8]
src = os.path.join(wt, "_seed")
have = [int(d.split("-")[1]) for d in os.listdir("/verif/seeded") if d.startswith(prop + "-")]
nxt = max(have) + 1
for i, (what, needs) in enumerate(((w1, n1), (w2, n2)), 1):
    sid = "%s-%d" % (prop, nxt + i - 1)
    d = os.path.join("/verif/seeded", sid)
    os.makedirs(d)
    shutil.copy(os.path.join(src, "change%d.diff" % i), os.path.join(d, "patch.diff"))
    shutil.copy(os.path.join(src, "demo%d.py" % i), os.path.join(d, "demo.py"))
    shutil.copy(os.path.join(src, "notes.md"), os.path.join(d, "notes.md"))
    for f in os.listdir(src):
        if f.endswith(".py") and not f.startswith("demo"):
            shutil.copy(os.path.join(src, f), os.path.join(d, f))
    json.dump({"property": prop, "round": int(rnd), "what": what, "needs_to_manifest": needs, "demo": "demo.py",
               "origin": "round %s: written by a fresh sub-agent that saw only the property text, a scratch worktree of /repo and a request for subtler changes (cooperating sites, persistent state, timing, narrow input classes) - nothing from /verif" % rnd,
               "ran": "tools/seeded.py --confirm"}, open(os.path.join(d, "meta.json"), "w"), indent=1)
    print("imported", sid)
subprocess.run(["git", "-C", "/repo", "worktree", "remove", "--force", wt])
