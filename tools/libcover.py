#!/usr/bin/env python3
"""Which executable lines of the library does no check's quick tier ever execute?
  tools/libcover.py [Cxx ...]      (default: all twenty checks)
Runs the checks with VERIF_COVER set (sys.monitoring LINE events, disabled per location after the
first hit, so the overhead is negligible) and lists, per library file, the executable lines that
were never reached. A blind spot is where a change cannot be observed by any monitor."""
import json, os, subprocess, sys, tempfile, shutil
HERE = os.path.dirname(os.path.dirname(os.path.abspath(__file__)))
REPO = os.environ.get("VERIF_REPO", "/repo")
FILES = ["circuitpython_nrf24l01/rf24.py", "circuitpython_nrf24l01/rf24_lite.py", "circuitpython_nrf24l01/fake_ble.py",
         "circuitpython_nrf24l01/rf24_network.py", "circuitpython_nrf24l01/rf24_mesh.py",
         "circuitpython_nrf24l01/network/mixins.py", "circuitpython_nrf24l01/network/structs.py",
         "circuitpython_nrf24l01/network/constants.py", "circuitpython_nrf24l01/wrapper/__init__.py"]

def exec_lines(path):
    src = open(path).read()
    out = set()
    def walk(co):
        for _, _, ln in co.co_lines():
            if ln:
                out.add(ln)
        for c in co.co_consts:
            if hasattr(c, "co_lines"):
                walk(c)
    walk(compile(src, path, "exec"))
    return out, src.splitlines()

def main():
    props = sys.argv[1:] or ["C%02d" % i for i in range(1, 21)]
    d = tempfile.mkdtemp(prefix="cov_", dir="/dev/shm")
    hits = {}
    per_prop = {}
    try:
        for p in props:
            env = dict(os.environ, VERIF_COVER=d, VERIF_EVIDENCE_DIR=os.path.join(d, "ev"), VERIF_REPLAY_DIR=os.path.join(d, "rp"))
            subprocess.run([os.path.join(HERE, "check"), p], env=env, cwd=HERE, capture_output=True, text=True)
            for f in os.listdir(d):
                if f.startswith(p + "-") and f.endswith(".json"):
                    for fn, ln in json.load(open(os.path.join(d, f))):
                        hits.setdefault(fn, set()).add(ln)
                        per_prop.setdefault(p, set()).add((fn, ln))
    finally:
        shutil.rmtree(d, ignore_errors=True)
    total = miss = 0
    for fn in FILES:
        path = os.path.join(REPO, fn)
        if not os.path.exists(path):
            continue
        ex, lines = exec_lines(path)
        got = hits.get(fn, set())
        missing = sorted(ex - got)
        total += len(ex)
        miss += len(missing)
        print("== %s: %d executable lines, %d never executed" % (fn, len(ex), len(missing)))
        for ln in missing:
            print("   %4d  %s" % (ln, lines[ln - 1].strip()[:110]))
    print("TOTAL %d executable lines, %d never executed by %s" % (total, miss, ",".join(props)))

if __name__ == "__main__":
    main()
