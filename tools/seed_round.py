#!/usr/bin/env python3
"""Prepares a round of independently written breaking changes: one scratch git worktree of /repo
per property under /tmp/<prefix>_<Cxx> with _seed/PROPERTY.txt (the property text only), and one
prompt file /tmp/<prefix>_prompt_<Cxx>.txt built from seeded/PROMPT_TEMPLATE.txt. The prompt names
the changes earlier rounds produced for that property (their one-line descriptions, which the
earlier sub-agents wrote themselves) so that a new round looks elsewhere; nothing about /verif's
checks is passed on.   usage: seed_round.py PREFIX [Cxx ...]
After the sub-agents finish: tools/import_seed.py PROP WORKTREE ROUND what1 needs1 what2 needs2"""
import json, os, subprocess, sys
prefix = sys.argv[1]
props = sys.argv[2:] or ["C%02d" % i for i in range(1, 21)]
tmpl = open("/verif/seeded/PROMPT_TEMPLATE.txt").read()
for p in props:
    d = "/tmp/%s_%s" % (prefix, p)
    if not os.path.exists(d):
        subprocess.run(["git", "-C", "/repo", "worktree", "add", "--detach", d, "HEAD", "-q"], check=True)
    os.makedirs(d + "/_seed", exist_ok=True)
    for l in open("/verif/properties.jsonl"):
        o = json.loads(l)
        if o["id"] == p:
            open(d + "/_seed/PROPERTY.txt", "w").write(
                "%s - %s\n\n%s\n\nQuantifier: %s\n\nWhy tests cannot settle it: %s\n\nAnchors: %s\n"
                % (o["id"], o["title"], o["statement"], o["quantifier"]["text"], o["why_tests_cant"],
                   json.dumps(o["anchors"], indent=1)))
    prev = [json.load(open("/verif/seeded/%s/meta.json" % sd))["what"]
            for sd in sorted(os.listdir("/verif/seeded")) if sd.startswith(p + "-")]
    extra = ("For this property you are free to pick any part of the anchored code and of the public API around it - "
             "read the whole of the relevant modules first, including rarely used public methods, argument forms and the "
             "interplay with neighbouring layers (the RF24 driver below the network layer, the network layer below the mesh "
             "layer, `with` blocks, several objects on one radio). Earlier rounds already produced the following changes for "
             "this property; do NOT repeat them or close variants of them, look elsewhere:\n"
             + "\n".join("  - " + w for w in prev) +
             "\nAim for changes whose effect needs a particular HISTORY (an earlier call, an earlier message, a value set and "
             "later changed, a failure at one particular point, two objects or two nodes interacting) or a narrow input class "
             "(one particular value, length, level, type, ID, pipe, argument form), and that ordinary straightforward use "
             "would never show.")
    open("/tmp/%s_prompt_%s.txt" % (prefix, p), "w").write(tmpl.replace("@WT@", d).replace("@EXTRA@", '"' + extra + '"'))
    print(p, d)
