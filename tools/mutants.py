#!/usr/bin/env python3
"""Monitor validation by deliberate breakage (DESIGN 6.2).

usage: tools/mutants.py [--only ID[,ID..]] [--prop Cxx] [--tier quick] [-j N]
Each catalogue entry is applied to a scratch copy of /repo under /dev/shm, the owning
check is run with VERIF_REPO pointing at the copy (evidence/replay redirected to scratch),
and the copy is removed.  'expect': 'caught' (default) or 'silent' (property still holds).
"""
import argparse, json, os, shutil, subprocess, sys, tempfile, concurrent.futures as cf
HERE = os.path.dirname(os.path.dirname(os.path.abspath(__file__)))
REPO = "/repo"

def run_one(m, tier):
    d = tempfile.mkdtemp(prefix="mut_", dir="/dev/shm")
    try:
        dst = os.path.join(d, "repo")
        shutil.copytree(os.path.join(REPO, "circuitpython_nrf24l01"), os.path.join(dst, "circuitpython_nrf24l01"),
                        ignore=shutil.ignore_patterns("__pycache__"))
        for ed in m["edits"]:
            p = os.path.join(dst, ed["file"])
            s = open(p).read()
            if s.count(ed["old"]) < 1:
                return m["id"], "STALE", "pattern not found in %s" % ed["file"]
            s = s.replace(ed["old"], ed["new"], ed.get("count", 1))
            open(p, "w").write(s)
        env = dict(os.environ, VERIF_REPO=dst, VERIF_EVIDENCE_DIR=os.path.join(d, "ev"),
                   VERIF_REPLAY_DIR=os.path.join(d, "rp"), VERIF_SCRATCH=os.path.join(d, "sc"))
        r = subprocess.run([os.path.join(HERE, "check"), m["prop"], "--tier", tier], env=env, cwd=HERE,
                           capture_output=True, text=True, timeout=3000)
        viol = [l for l in r.stdout.splitlines() if l.startswith("VIOLATION") or l.startswith("  key=")]
        keys = [l.split()[0][4:] for l in r.stdout.splitlines() if l.startswith("  key=")]
        if r.returncode == 1 and viol:
            return m["id"], "caught", ",".join(keys)[:200]
        if r.returncode == 0:
            return m["id"], "silent", ""
        return m["id"], "exit%d" % r.returncode, (r.stdout + r.stderr)[-300:]
    finally:
        shutil.rmtree(d, ignore_errors=True)

def main():
    ap = argparse.ArgumentParser()
    ap.add_argument("--only"); ap.add_argument("--prop"); ap.add_argument("--tier", default="quick")
    ap.add_argument("-j", type=int, default=4)
    a = ap.parse_args()
    cat = json.load(open(os.path.join(HERE, "mutants", "catalogue.json")))
    sel = [m for m in cat if (not a.only or m["id"] in a.only.split(",")) and (not a.prop or m["prop"] == a.prop)]
    bad = 0
    with cf.ThreadPoolExecutor(a.j) as ex:
        for (mid, res, info), m in zip(ex.map(lambda m: run_one(m, a.tier), sel), sel):
            exp = m.get("expect", "caught")
            ok = (res == exp)
            bad += not ok
            print("%-28s %-4s expect=%-7s got=%-7s %s %s" % (mid, m["prop"], exp, res, "" if ok else "<<<<", info))
    print("%d mutants, %d unexpected" % (len(sel), bad))
    return 1 if bad else 0
if __name__ == "__main__":
    sys.exit(main())
