#!/usr/bin/env python3
"""Regenerates MANIFEST.json from the table below (run from /verif)."""
import json, os, sys
HERE = os.path.dirname(os.path.dirname(os.path.abspath(__file__)))
TECH = ("runtime monitoring: real driver code executed on a simulated nRF24L01 environment; ")
CHECKS = {
 "C01": ("unique-id payload histories + SPI-bus byte monitor + caller-buffer snapshot monitor", "4/C01",
         "Seeded exploration of (length, buffer type, length mode, pipe, address width, rate, CRC, ack mode, list form, SPI flavour); every payload is followed from the W_TX_PAYLOAD bytes on the bus to the peer's read(), with exactly-once/order/pipe checks and a state-based rejection clause; ping-pong role swaps, write()-until-refused streaming and set-up histories between opening the pipes and the traffic (role round trips, with re-entry, late address width, sender with its own pipe-0 address). Exploration, not proof: held on the executions observed."),
 "C02": ("offline checker over the air log + PTX transaction record per send()/resend() call, under per-attempt fault plans; virtual-clock deadline monitor", "4/C02",
         "Exhaustive {lost, ack-lost, delivered}^n loss patterns for <=4 (quick) / <=6 (thorough) attempts, all ACK-payload call histories of depth 3/4, structured first-success-at-k patterns up to arc 15 x force_retry 3, and random call sequences; each call's result is compared with what the simulated radio actually did, attempts are counted on air, leaks after return and into later calls are looked for, and termination is a bounded-progress check on the virtual clock."),
 "C03": ("register-file snapshot monitor vs. independent datasheet-derived reference configuration model + SPI sanitizer + with-block coherence probe", "4/C03",
         "Bounded-exhaustive pairs (quick) / triples (thorough) over a 66-call core alphabet plus random depth-40 walks over a 170-call alphabet, on plus/non-plus chips and three SPI flavours; after every call the whole register file, CE, exception class, sanitizer log and (on half the sequences) every getter are compared with the reference model."),
 "C05": ("unique-id message histories over a deterministic multi-MCU scheduler; offline exactly-once/no-misdelivery checker over all nodes' application logs + air log", "4/C05",
         "Sampled tree topologies (2..12 real driver instances, one thread per MCU, seeded cost profiles and jitter) exchanging one message at a time; judged at virtual-time quiescence. Ideal medium for liveness clauses, hostile medium for no-corruption/no-misdelivery only. Known protocol-level finding (fragmented multi-hop) is reported as KNOWN-FINDING by mechanism."),
 "C06": ("unique-id fragment histories checked by set membership/counting against the sent messages (fragments from an independent TMRh20-numbering fragmenter and, in the lib-sender family, from the library's own sender via the air log)", "4/C06",
         "Exhaustive per-fragment {drop, once, twice} patterns with adjacent transpositions and every dequeue point for 2..4 fragments, all interleavings of two senders' streams with equal/different frame ids, plus random stray/restart histories up to 7 fragments and 3 senders; tail-replay histories for message types that coincide with fragment counters and queue-pressure histories (finished message refused or only just fitting, late repeats after the application read); delivered through the radio RX FIFO + update() and through FrameQueueFrag.enqueue directly."),
 "C08": ("reference automaton at every call return + CONFIG/CE trace monitor + real probe transmissions from a third simulated radio", "4/C08",
         "Breadth-first exploration with state hashing (radio registers x driver object state) to depth 4 (quick) / 6 (thorough) over a 19-call alphabet x address widths 3..5, plus random depth-30 walks; the last call of every executed path is followed by probe packets / a send() to a listening peer."),
 "C09": ("pure observation: register snapshot at the end of an object's block vs. snapshot right after re-entry, for interleaved objects of all driver classes on one radio", "4/C09",
         "1.5k (quick) / 150k (thorough) seeded interleavings of with-blocks of 2-3 objects of any mix of six classes, each block running 0..8 configuration calls; PWR_UP/CE checked after every __exit__."),
 "C10": ("accessor results and side effects compared with the simulator's FIFOs/STATUS/OBSERVE_TX/IRQ line after every call; status-derived attributes judged against the STATUS byte actually shifted out", "4/C10",
         "Random histories of traffic (injected and real receptions on all pipes, transmissions with k lost attempts, queued payloads, ACK payloads) interleaved with all accessor forms in dynamic, static (per-pipe lengths) and mixed modes and all IRQ masks."),
 "C12": ("history + executable reference queue; clone-and-drain content comparison after every operation", "4/C12",
         "All operation histories of depth 6 (quick) / 8 (thorough) over a 10-operation alphabet (fresh/duplicate/same-id-other-type/re-used-object enqueue with messages of 0..144 bytes mutated in place afterwards, dequeue, peek, len, max_queue_size lower/higher, fragmentation toggle) by DFS with cloned states, plus random walks on a real node with `fragmentation` toggled."),
 "C04": ("ground-truth listening table + observed next hops on a complete 781-node network of real nodes sharing one simulated medium; offline path composition vs. digit-arithmetic reference", "4/C04",
         "All 781x6 listening entries (uniqueness, level-shared pipe 0) for the default and seeded random address bytes with multicast on/off; each observed hop is a real transmission that must be accepted by exactly one radio, the reference next hop: 48 class-chosen destinations per node in both roles (quick), all 781x780 pairs (thorough); multicast level membership by reception; history independence (interleaved unicasts/multicasts of one node each judged like a first transmission) and nodes re-addressed at run time compared with fresh ones."),
 "C07": ("invariant at the API boundary: register/CE snapshot vs. reference addresses after every outermost network/mesh call of every node", "4/C07",
         "Own nasty histories (absent hops, lost ACKs/NETWORK_ACKs/fragments, loop-back, invalid arguments, node_address/multicast_level assignment, mesh calls with and without master) plus borrowed C05/C13/C14 scenarios; evidence lists return sites by (class, operation, outcome)."),
 "C11": ("byte-level reference codec + reference TMRh20-numbering fragmenter and TMRh20-style reassembler applied to the on-air frames; caller-header snapshot monitor incl. routed sends on a 3-node chain", "4/C11",
         "Header codec over all 12-bit addresses, id edge values and wrap, all types x reserved values; one write/send/multicast per message length 0..144 x types on RF24Network and RF24Mesh against a promiscuous-ACK stub; sessions of 2..4 messages (header objects re-used, long/short mixes) with an outage that starts at a chosen fragment's first attempt - a True result requires that the receiver accepted every reference frame."),
 "C13": ("offline checker over the air log (NETWORK_ACK frames by originator/PID, reception time at the origin) and the call history under per-hop fault plans", "4/C13",
         "Routes of 1..8 hops over two-chain topologies, every message type outside the consumed ones, fault plans killing one forward hop or one NETWORK_ACK relay, tx/route timeouts varied; guard band around the route timeout admits either answer; same-header re-sends, foreign frames to relay during the origin's wait, multicast-off nodes."),
 "C14": ("application logs of all nodes + air log (packets per frame, ACK packets, relayed frames) + listening facts, judged at quiescence", "4/C14",
         "Populated random topologies with relay / allow_multicast flags, every sender class x level None/0..4/-1/7, lengths 0..144, lazy readers, back-to-back multicasts, multicast_level overrides and multicasts that arrive while a level member waits for a NETWORK_ACK; fragmented multicasts are a recorded known finding (unacknowledged stream without flow control)."),
 "C15": ("exception/virtual-time/air/queue monitors around update() for frames injected at the radio; exhaustive predicate sweep vs. reference", "4/C15",
         "All 65536 values + None for the validity predicate (exhaustive); ~20k (quick) injected frames over 7 roles x levels 0..4 x all types x lengths x destination/origin classes, truncated mesh payloads, random strings, bursts of 1..3 frames; every transmission must be explained by a received frame and the master's lease table may only change on requests/releases."),
 "C16": ("reference lease model + table invariant after every event + reply frames on air checked against the real listening addresses of the first hop", "4/C16",
         "All event sequences up to depth 4 (quick) / 5 (thorough) over 3 IDs x 3 via-nodes + releases, random depth-60 histories over IDs 1..255, fill/release/re-request on ten parents, save/load round trips for table sizes 0..255 in both formats."),
 "C17": ("end-state and history checker over concurrent joins on the deterministic multi-MCU scheduler: results vs. master table, application logs, documented codes", "4/C17",
         "40 (quick) / 4000 (thorough) scenarios: master + 1..12 joiners in their own threads with start offsets, relays forced by >5 joiners, allow_children mixes, deep narrow trees joined sequentially through level-2/3 relays, timeouts sized to the joiner count; then per node (on a quiet network) lookups / mesh send across levels / check_connection / release / re-join one at a time; hostile-medium variant judges only no-exception, termination, valid-or-None."),
 "C18": ("independent bit-serial BLE link-layer 'phone model' decoding every on-air packet for the channel the radio was tuned to", "4/C18",
         "6k (quick) / 200k (thorough) cases over name/PA/MAC forms, chunk sets around the capacity boundary in single/list/tuple form, and channel histories of hop_channel / channel= / shared with-blocks up to depth 8."),
 "C19": ("independent BLE encoder/decoder: element-wise equality, corruption sweep decided by the reference, exception monitor on available()", "4/C19",
         "FakeBLE->FakeBLE over the air and reference-encoder -> RX FIFO on all channels; battery and temperature sweeps (exact hundredths, both signs), URLs, raw chunks; single/double bit corruptions; CRC-valid adversarial AD structures; random payloads; 1..3 queued packets."),
 "C20": ("the C01/C02/C08/C10 monitors re-run through a lite driver adapter on the real adafruit SPIDevice + reduced reference configuration model + load_ack clause", "4/C20",
         "Lite as transmitter, receiver and on both ends incl. full<->lite interop; all pairs over a 47-call lite configuration alphabet + walks; load_ack for lengths 0..34,40 x pipes -1..6 x FIFO fill 0..3."),
}
NOT_YET = {}
def _addendum(cid):
    """the 'Later rounds added: ...' sentence of the check's RULE string"""
    src = open(os.path.join(HERE, "checks", cid.lower() + ".py")).read()
    i = src.find('RULE += (" Later rounds added:')
    if i < 0:
        return ""
    j = src.index('")\n', i)
    return " " + src[i + len('RULE += (" '):j].replace('\\"', '"')  # RULE_ADD


def main():
    props = [json.loads(l) for l in open(os.path.join(HERE, "properties.jsonl"))]
    checks = []
    na = []
    for p in props:
        pid = p["id"]
        if pid in CHECKS and os.path.exists(os.path.join(HERE, "checks", pid.lower() + ".py")):
            tech, ref, text = CHECKS[pid]
            checks.append({
                "property_id": pid,
                "quick_cmd": "./check %s --tier quick" % pid,
                "thorough_cmd": "./check %s --tier thorough" % pid,
                "evidence_file": "evidence/%s.json" % pid,
                "replay_cmd_template": "./check %s --replay {path}" % pid,
                "engine": "vsim+vmon",
                "level_claimed": {"category": "exploration", "text": text + _addendum(pid), "design_ref": "DESIGN.md section " + ref + " and 10.6-10.16"},
                "level_note": "Trusted base: the simulated nRF24L01(+) model (assumptions A1-A25, DESIGN.md 2.1 and 10.2), the virtual clock/scheduler, the reference models under refmodels/, and CPython 3.12. Claims are 'held on the executions observed', never 'verified'.",
                "technique": TECH + tech,
            })
        else:
            na.append({"property_id": pid, "reason": NOT_YET.get(pid, "check not built yet in this round (runtime monitoring applies; see DESIGN.md section 4/%s)" % pid)})
    man = {
        "version": 1,
        "setup_cmd": "./setup.sh",
        "hooks": {"guard": "NRF24L01_VERIF", "enable": "no source hooks: all observation points are outside the library (SPI, pins, time, air, public API); checks export NRF24L01_VERIF=1 for the harness only",
                  "baseline_off_cmd": "cd /repo && /venv/bin/python -m pytest -ra -q -p no:cacheprovider --timeout=900 --continue-on-collection-errors",
                  "source_commits": [], "add_only": True},
        "engines": [{"name": "vsim+vmon", "path": "vsim/ vmon/ refmodels/ checks/", "serves_properties": [c["property_id"] for c in checks],
                     "kind_free_text": "discrete-event nRF24L01 simulator with SPI sanitizer, deterministic multi-MCU scheduler, monitors and reference models; real repository code runs unmodified on top"}],
        "checks": checks,
        "notes": "Genuine defects found are in known_findings.json (fixed entries name the /repo 'fix:' commit). See DESIGN.md section 9 log.",
        "not_applicable": na,
    }
    json.dump(man, open(os.path.join(HERE, "MANIFEST.json"), "w"), indent=1)
    print("checks:", [c["property_id"] for c in checks], "not_applicable:", len(na))
if __name__ == "__main__":
    main()
