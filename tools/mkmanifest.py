#!/usr/bin/env python3
"""Regenerates MANIFEST.json from the table below (run from /verif)."""
import json, os, sys
HERE = os.path.dirname(os.path.dirname(os.path.abspath(__file__)))
TECH = ("runtime monitoring: real driver code executed on a simulated nRF24L01 environment; ")
CHECKS = {
 "C01": ("unique-id payload histories + SPI-bus byte monitor + caller-buffer snapshot monitor", "4/C01",
         "Seeded exploration of (length, buffer type, length mode, pipe, address width, rate, CRC, ack mode, list form, SPI flavour); every payload is followed from the W_TX_PAYLOAD bytes on the bus to the peer's read(), with exactly-once/order/pipe checks and a state-based rejection clause. Exploration, not proof: held on the executions observed."),
 "C03": ("register-file snapshot monitor vs. independent datasheet-derived reference configuration model + SPI sanitizer + with-block coherence probe", "4/C03",
         "Bounded-exhaustive pairs (quick) / triples (thorough) over a 66-call core alphabet plus random depth-40 walks over a 170-call alphabet, on plus/non-plus chips and three SPI flavours; after every call the whole register file, CE, exception class, sanitizer log and (on half the sequences) every getter are compared with the reference model."),
}
NOT_YET = {}
def main():
    props = [json.loads(l) for l in open(os.path.join(HERE, "properties.jsonl"))]
    checks = []
    na = []
    for p in props:
        pid = p["id"]
        if pid in CHECKS and os.path.exists(os.path.join(HERE, "checks", pid.lower() + ".py")):
            tech, ref, text = CHECKS[pid]
            checks.append({
                "property_id": pid,
                "quick_cmd": "./check %s --tier quick" % pid,
                "thorough_cmd": "./check %s --tier thorough" % pid,
                "evidence_file": "evidence/%s.json" % pid,
                "replay_cmd_template": "./check %s --replay {path}" % pid,
                "engine": "vsim+vmon",
                "level_claimed": {"category": "exploration", "text": text, "design_ref": "DESIGN.md section " + ref},
                "level_note": "Trusted base: the simulated nRF24L01(+) model (assumptions A1-A22, DESIGN.md 2.1), the virtual clock/scheduler, the reference models under refmodels/, and CPython 3.12. Claims are 'held on the executions observed', never 'verified'.",
                "technique": TECH + tech,
            })
        else:
            na.append({"property_id": pid, "reason": NOT_YET.get(pid, "check not built yet in this round (runtime monitoring applies; see DESIGN.md section 4/%s)" % pid)})
    man = {
        "version": 1,
        "setup_cmd": "./setup.sh",
        "hooks": {"guard": "NRF24L01_VERIF", "enable": "no source hooks: all observation points are outside the library (SPI, pins, time, air, public API); checks export NRF24L01_VERIF=1 for the harness only",
                  "baseline_off_cmd": "cd /repo && /venv/bin/python -m pytest -ra -q -p no:cacheprovider --timeout=900 --continue-on-collection-errors",
                  "source_commits": [], "add_only": True},
        "engines": [{"name": "vsim+vmon", "path": "vsim/ vmon/ refmodels/ checks/", "serves_properties": [c["property_id"] for c in checks],
                     "kind_free_text": "discrete-event nRF24L01 simulator with SPI sanitizer, deterministic multi-MCU scheduler, monitors and reference models; real repository code runs unmodified on top"}],
        "checks": checks,
        "notes": "Genuine defects found are in known_findings.json (fixed entries name the /repo 'fix:' commit). See DESIGN.md section 9 log.",
        "not_applicable": na,
    }
    json.dump(man, open(os.path.join(HERE, "MANIFEST.json"), "w"), indent=1)
    print("checks:", [c["property_id"] for c in checks], "not_applicable:", len(na))
if __name__ == "__main__":
    main()
