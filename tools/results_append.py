#!/usr/bin/env python3
"""Appends to seeded/RESULTS.md the rows of the seeds that the generated table does not list yet,
taken from the JSON lines the per-round runs of tools/seeded.py left under out/ (the latest line
per seed wins).  usage: tools/results_append.py out/LOG [out/LOG ...]   (logs in chronological order)"""
import json, os, sys
HERE = os.path.dirname(os.path.dirname(os.path.abspath(__file__)))
res = {}
for fn in sys.argv[1:]:
    for l in open(fn):
        if l.startswith("{"):
            try:
                o = json.loads(l)
            except ValueError:
                continue
            if "checks" in o:
                res[o["id"]] = o["checks"]
p = os.path.join(HERE, "seeded", "RESULTS.md")
text = open(p).read()
mark = "\n## Rounds 10 and later"
if mark in text:
    text = text[:text.index(mark)]
have = {l.split("|")[1].strip() for l in text.splitlines() if l.startswith("| C")}
rows = []
def key(s):
    a, b = s.split("-")
    return (a, int(b))
for sid in sorted((d for d in os.listdir(os.path.join(HERE, "seeded")) if os.path.exists(os.path.join(HERE, "seeded", d, "meta.json"))), key=key):
    if sid in have:
        continue
    m = json.load(open(os.path.join(HERE, "seeded", sid, "meta.json")))
    r = res.get(sid)
    if r is None:
        cell = "(not re-run in this session)"
    else:
        cell = "; ".join("%s %s" % (k, ("`" + v[7:] + "`") if v.startswith("caught:") else v) for k, v in r.items())
    if m.get("why_silent"):
        cell += " - " + m["why_silent"][:300]
    rows.append("| %s | %s | %s | %s | %s |" % (sid, m.get("round"), m["what"].replace("|", "/"), m.get("needs_to_manifest", "").replace("|", "/"), cell))
text += mark + " (rows taken from the per-round runs, quick tier, scratch copies of /repo HEAD)\n\n| id | round | change | needs | owning check and others (violation keys) |\n|---|---|---|---|---|\n" + "\n".join(rows) + "\n"
open(p, "w").write(text)
print(len(rows), "rows appended;", sum(1 for s in rows if "(not re-run" in s), "without a result")
