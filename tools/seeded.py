#!/usr/bin/env python3
"""Runs the checks against the independently written breaking changes under /verif/seeded/<id>/.

  tools/seeded.py [--only ID,...] [--tier quick|thorough] [--confirm] [-j N]

For each seeded change a scratch copy of /repo's tracked tree is made under /dev/shm, the patch is
applied there, the owning check (meta.json "property", plus "also") is run with VERIF_REPO pointing at
the copy (evidence/replay redirected into the scratch directory) and the copy is removed.
--confirm additionally re-establishes the seed itself: the repository's test-suite passes with the
change, and the demonstration fails with it and passes without it.
"""
import argparse, json, os, shutil, subprocess, sys, tempfile, concurrent.futures as cf
HERE = os.path.dirname(os.path.dirname(os.path.abspath(__file__)))
REPO = "/repo"
PY = "/venv/bin/python"

def scratch_copy():
    d = tempfile.mkdtemp(prefix="seed_", dir="/dev/shm")
    dst = os.path.join(d, "repo")
    os.makedirs(dst)
    subprocess.run("git -C %s archive HEAD | tar -x -C %s" % (REPO, dst), shell=True, check=True)
    return d, dst

def run_demo(dst, demo):
    env = dict(os.environ, PYTHONPATH=dst, PYTHONDONTWRITEBYTECODE="1")
    r = subprocess.run([PY, demo], cwd=dst, env=env, capture_output=True, text=True, timeout=600)
    return r.returncode, (r.stdout + r.stderr)[-300:]

def one(sid, tier, confirm):
    sdir = os.path.join(HERE, "seeded", sid)
    meta = json.load(open(os.path.join(sdir, "meta.json")))
    d, dst = scratch_copy()
    out = {"id": sid, "property": meta["property"]}
    try:
        demo = os.path.join(sdir, meta.get("demo", "demo.py"))
        if confirm:
            os.makedirs(os.path.join(dst, "_seed"), exist_ok=True)  # the demos were written to live in <tree>/_seed/
            shutil.copy(demo, os.path.join(dst, "_seed", "demo.py"))
            for f in os.listdir(sdir):  # helper modules some demos import
                if f.endswith(".py") and f != "demo.py":
                    shutil.copy(os.path.join(sdir, f), os.path.join(dst, "_seed", f))
            rc0, _ = run_demo(dst, os.path.join(dst, "_seed", "demo.py"))
            out["demo_without"] = rc0
        r = subprocess.run(["patch", "-p1", "-s", "-d", dst, "-i", os.path.join(sdir, "patch.diff")],
                           capture_output=True, text=True)
        if r.returncode:
            out["error"] = "patch does not apply: " + (r.stdout + r.stderr)[-200:]
            return out
        if confirm:
            rc1, tail = run_demo(dst, os.path.join(dst, "_seed", "demo.py"))
            out["demo_with"] = rc1
            t = subprocess.run([PY, "-m", "pytest", "-q", "-p", "no:cacheprovider", "-x"], cwd=dst,
                               env=dict(os.environ, PYTHONPATH=dst), capture_output=True, text=True, timeout=900)
            out["tests"] = t.stdout.strip().splitlines()[-1] if t.stdout.strip() else "?"
        res = {}
        for prop in [meta["property"]] + meta.get("also", []):
            env = dict(os.environ, VERIF_REPO=dst, VERIF_EVIDENCE_DIR=os.path.join(d, "ev"),
                       VERIF_REPLAY_DIR=os.path.join(d, "rp"), VERIF_SCRATCH=os.path.join(d, "sc"))
            c = subprocess.run([os.path.join(HERE, "check"), prop, "--tier", tier], env=env, cwd=HERE,
                               capture_output=True, text=True, timeout=6000)
            keys = [l.split()[0][4:] for l in c.stdout.splitlines() if l.startswith("  key=")]
            res[prop] = ("caught:" + ",".join(keys)[:160]) if c.returncode == 1 and keys else (
                "silent" if c.returncode == 0 else "exit%d" % c.returncode)
        out["checks"] = res
        return out
    finally:
        shutil.rmtree(d, ignore_errors=True)

def main():
    ap = argparse.ArgumentParser()
    ap.add_argument("--only"); ap.add_argument("--tier", default="quick")
    ap.add_argument("--confirm", action="store_true"); ap.add_argument("-j", type=int, default=3)
    ap.add_argument("--table", action="store_true", help="write seeded/RESULTS.md")
    a = ap.parse_args()
    ids = sorted(os.listdir(os.path.join(HERE, "seeded")))
    ids = [i for i in ids if os.path.exists(os.path.join(HERE, "seeded", i, "meta.json"))]
    if a.only:
        ids = [i for i in ids if i in a.only.split(",")]
    missed = 0
    outside = 0
    rows = []
    with cf.ThreadPoolExecutor(a.j) as ex:
        for o in ex.map(lambda i: one(i, a.tier, a.confirm), ids):
            own = o.get("checks", {}).get(o["property"], o.get("error", "?"))
            meta_o = json.load(open(os.path.join(HERE, "seeded", o["id"], "meta.json")))
            if meta_o.get("why_silent") and not str(own).startswith("caught"):
                o["why_silent"] = meta_o["why_silent"][:120] + "..."
                outside += 1
            else:
                missed += not str(own).startswith("caught")
            print(json.dumps(o), flush=True)
            rows.append(o)
    if a.table:
        # generated overview (seeded/RESULTS.md): one row per change with what the checks reported
        with open(os.path.join(HERE, "seeded", "RESULTS.md"), "w") as f:
            f.write("# Seeded changes: result of `tools/seeded.py%s --tier %s --table`\n\n"
                    "Generated; the patches are applied to scratch copies of /repo HEAD, never to /repo.\n\n"
                    "| id | round | change | needs | %sowning check and others (violation keys) |\n|---|---|---|---|%s---|\n"
                    % (" --confirm" if a.confirm else "", a.tier,
                       "suite / demo without / demo with | " if a.confirm else "", "---|" if a.confirm else ""))
            for o in rows:
                meta = json.load(open(os.path.join(HERE, "seeded", o["id"], "meta.json")))
                conf = ("%s / %s / %s | " % (o.get("tests", "?"), o.get("demo_without"), o.get("demo_with"))) if a.confirm else ""
                res = "; ".join("%s %s" % (k, v.replace("caught:", "`").replace(",", "`, `") + ("`" if v.startswith("caught:") else ""))
                                for k, v in o.get("checks", {}).items()) or o.get("error", "?")
                if meta.get("why_silent"):
                    res += " - SILENT ON PURPOSE: " + meta["why_silent"].replace("|", "/")
                f.write("| %s | %s | %s | %s | %s%s |\n" % (o["id"], meta.get("round", 1),
                        meta.get("what", "").replace("|", "/"), meta.get("needs_to_manifest", "").replace("|", "/"), conf, res))
    print("%d seeded changes, %d not caught by the owning check%s" % (
        len(ids), missed, (" (+%d silent for a recorded reason, see meta.json why_silent)" % outside) if outside else ""))
    return 0
if __name__ == "__main__":
    sys.exit(main())
