#!/bin/bash
# offline setup: third-party contract libraries beside the repository's interpreter (optional),
# then the simulator self-test.
cd "$(dirname "$0")"
if [ ! -d .deps/icontract ]; then
  /venv/bin/pip install -q --no-index --find-links /opt/veriftools/wheels --target .deps icontract >/dev/null 2>&1 || echo "icontract not installed (optional)"
fi
export PYTHONHASHSEED=0 PYTHONPATH="$PWD"
/venv/bin/python -m vsim.selftest
