"""C13 - NETWORK_ACK: awaited only when needed, sent once, believed only if received.
DESIGN §4/C13."""
from checks import netcommon as N
from refmodels import net_ref
from vsim import world as W

PROP = "C13"
RULE = ("chain and two-branch topologies giving routes of 1..8 hops between real RF24Network "
        "nodes (one thread per MCU); single-frame unicast messages of every type 0..255 except "
        "those the network layer consumes, one at a time, under fault plans that kill exactly one "
        "hop of the forward route or one relay of the NETWORK_ACK (or nothing), with tx_timeout in "
        "{5,25,60} ms and route_timeout in {15,75,200} ms; a quarter of the messages are re-sent with "
        "the SAME header object (same frame id and type); while an origin with children waits in "
        "vain, a foreign frame (NETWORK_ACK or other) addressed to an absent/present child arrives "
        "to be relayed; multicast is disabled on a quarter of the nodes; judged offline from the air log "
        "(NETWORK_ACK frames by originator/PID, reception time at the origin) and the call history "
        "(result, virtual duration). Non-trivial: >=1 frame crossed the air and quiescence was "
        "reached; distinct = (hops, type class, fault plan kind and position, timeouts).")
RULE += (" Later rounds added: same-header re-sends, foreign frames to relay during the origin's wait (with and without loss), multicast-off nodes, multicasts through relays (no NETWORK_ACK), multicast_level overrides, a frame to relay queued in the origin's RX FIFO just ahead of its NETWORK_ACK, a frame for the origin itself right behind it, a hop that is deaf for a swept time around the sending hop's tx_timeout, origins whose queue is full when they send, a first hop that takes the frame late (3 ms .. tx_timeout - 3 ms) with a short route_timeout.")
REQUIRED = {"result_vs_ack_arrival": 150, "ack_count": 300, "no_ack_for_others": 150,
            "duration_bound": 300}
BUDGET = {"quick": 480, "thorough": 900}

FOREIGN_ID = 0xEEEE
CONSUMED = {128, 130, 131, 148, 149, 150, 193, 194, 195}


def chains(rng):
    """two chains below the master -> leaf-to-leaf routes of up to 8 hops"""
    d1 = rng.randrange(1, 5)
    d2 = rng.randrange(0, 5)
    nodes = [0]
    a = 0
    c1 = rng.randrange(1, 6)
    for l in range(d1):
        a = a | ((c1 if l == 0 else rng.randrange(1, 6)) << (3 * l))
        if a == net_ref.DEFAULT_ADDR:
            a ^= 1 << 9
        nodes.append(a)
    b = 0
    c2 = rng.choice([c for c in range(1, 6) if c != c1])
    for l in range(d2):
        b = b | ((c2 if l == 0 else rng.randrange(1, 6)) << (3 * l))
        if b == net_ref.DEFAULT_ADDR:
            b ^= 1 << 9
        nodes.append(b)
    return nodes


def gen_outage_sweeps(ctx):
    """fixed chains; one hop of an acknowledged 2..3-hop message is deaf from its first attempt on
    for tx_timeout - 2 .. tx_timeout + 16 ms in half-millisecond steps: the sending hop's last retry
    burst begins before its deadline and may be acknowledged after it"""
    rng = ctx.sub_rng("c13sweep")
    step = 0.5 if ctx.tier == "quick" else 0.125
    for nodes, src, dst in (([0, 0o1, 0o11, 0o111], 0o111, 0), ([0, 0o3, 0o23, 0o4], 0o4, 0o23),
                            ([0, 0o2, 0o52], 0o52, 0), ([0, 0o5, 0o15, 0o315], 0, 0o315)):
        path = [src] + net_ref.tree_path(src, dst)
        for tx_to in (5, 25, 60):
            for hop in sorted({len(path) - 2, 0}):
                msgs = []
                d = tx_to - 2.0
                while d <= tx_to + 16.0:
                    msgs.append({"src": src, "dst": dst, "type": 65 + len(msgs) % 100, "len": 4,
                                 "plan": {"kind": "fwd_outage", "node": path[hop], "ms": round(d, 3)}})
                    d += step
                for k in range(0, len(msgs), 12):
                    yield {"nodes": nodes, "msgs": msgs[k:k + 12], "tx_timeout": tx_to, "route_timeout": 200,
                           "mc_off": [], "relay": [], "mlevel": {},
                           "profiles": {str(a): N.rand_profile(rng, base=40000) for a in nodes},
                           "seed": rng.getrandbits(30)}


def gen_late_first_hop(ctx):
    """the origin's own first hop is deaf for 3 ms .. tx_timeout - 3 ms (it takes the frame late, on a
    stand-by retry) while route_timeout is SHORT (15 ms): the wait for the NETWORK_ACK is counted from
    the moment the first hop took the frame, not from the call - an ACK that comes back a few ms
    after that is in time however long the first hop took"""
    rng = ctx.sub_rng("c13late")
    for nodes, src, dst in (([0, 0o1, 0o11, 0o111], 0o111, 0), ([0, 0o3, 0o23, 0o4], 0o4, 0o23), ([0, 0o2, 0o52], 0, 0o52)):
        for tx_to in (25, 60):
            msgs = []
            d = 3.0
            while d <= tx_to - 3.0:
                msgs.append({"src": src, "dst": dst, "type": 65 + len(msgs) % 100, "len": 4,
                             "plan": {"kind": "fwd_outage", "node": src, "ms": round(d, 3)}})
                d += 1.5 if ctx.tier == "quick" else 0.5
            for k in range(0, len(msgs), 12):
                yield {"nodes": nodes, "msgs": msgs[k:k + 12], "tx_timeout": tx_to, "route_timeout": 15,
                       "mc_off": [], "relay": [], "mlevel": {},
                       "profiles": {str(a): dict(N.rand_profile(rng, base=40000), poll=0) for a in nodes},
                       "seed": rng.getrandbits(30)}


def gen_cases(ctx):
    yield from gen_outage_sweeps(ctx)
    yield from gen_late_first_hop(ctx)
    rng = ctx.sub_rng("c13")
    rng2 = ctx.sub_rng("c13b")  # later additions draw from their own stream
    ntop = 220 if ctx.tier == "quick" else 8000
    alltypes = [t for t in range(256) if t not in CONSUMED]
    for i in range(ntop):
        nodes = chains(rng)
        base = rng.choice([15000, 40000, 80000, 150000, 300000])
        tx_to = rng.choice([5, 25, 25, 60])
        rt_to = rng.choice([15, 75, 75, 200])
        msgs = []
        for k in range(10 if ctx.tier == "quick" else 20):
            src = rng.choice(nodes)
            dst = rng.choice([a for a in nodes if a != src])
            path = [src] + net_ref.tree_path(src, dst)
            t = rng.choice([rng.choice(alltypes), rng.randrange(65, 128), rng.randrange(65, 192),
                            64, 65, 191, 192, 193, 0])
            if t in CONSUMED and t != 193:
                t = 66
            plan = None
            r = rng.random()
            if r < 0.3 and len(path) >= 2:
                j = rng.randrange(len(path) - 1)
                plan = {"kind": "fwd", "node": path[j]}
            elif r < 0.55 and len(path) >= 3:
                # the NETWORK_ACK originates at path[-2] and is relayed back towards the origin
                j = rng.randrange(1, len(path) - 1)
                plan = {"kind": "ack", "node": path[j]}
            ms = {"src": src, "dst": dst, "type": t, "len": rng.choice([0, 1, 12, 24]), "plan": plan}
            if plan and plan["kind"] == "ack" and net_ref.level(src) < 4 and rng.random() < 0.5:
                # while the origin waits in vain, somebody else's NETWORK_ACK comes by to be
                # relayed to one of its (absent or present) children
                kids = [src | (c << (3 * net_ref.level(src))) for c in range(1, 6)]
                kids = [a for a in kids if a != net_ref.DEFAULT_ADDR]
                absent = [a for a in kids if a not in nodes]
                present = [a for a in kids if a in nodes and a not in path]
                pick = present if present and rng.random() < 0.3 else absent
                if pick:
                    ms["foreign"] = {"to": rng.choice(pick), "type": rng.choice([193, 193, 193, 70, 131]),
                                     "delay_us": rng.choice([200, 1000, 4000])}
            if rng.random() < 0.12:
                # "multicasts never cause a NETWORK_ACK": also not when a relay re-broadcasts them
                ms = {"src": src, "dst": src, "type": rng.choice([65, 66, 100, 127, 129, 160, 191, 64, 192, t]),
                      "len": rng.choice([0, 8, 24]), "plan": None, "mc": rng.choice([None, 0, 1, 2, 3, 4])}
                msgs.append(ms)
                continue
            if plan is None and "foreign" not in ms and len(path) >= 4 and 65 <= t <= 191 \
                    and net_ref.level(src) < 4 and rng.random() < 0.6:
                # nothing is lost, the route is long (the NETWORK_ACK takes a while) and, early in
                # the origin's wait, a foreign frame arrives that it must relay to an absent child:
                # the failing forward must not change how long the origin waits for its own ACK
                kids = [src | (c << (3 * net_ref.level(src))) for c in range(1, 6)]
                absent = [a for a in kids if a not in nodes and a != net_ref.DEFAULT_ADDR]
                if absent:
                    ms["foreign"] = {"to": rng.choice(absent), "type": rng.choice([193, 70, 1]),
                                     "delay_us": rng.choice([200, 1000, 3000]), "trigger": "first_hop"}
            if plan is None and "foreign" not in ms and len(path) >= 3 and 65 <= t <= 191 and "mc" not in ms \
                    and net_ref.level(src) < 4 and rng2.random() < 0.8:
                # nothing is lost; a foreign frame for an absent child reaches the origin's RX FIFO
                # just ahead of its NETWORK_ACK
                kids = [src | (c << (3 * net_ref.level(src))) for c in range(1, 6)]
                absent = [a for a in kids if a not in nodes and a != net_ref.DEFAULT_ADDR]
                if absent:
                    ms["foreign"] = {"to": rng2.choice(absent), "type": rng2.choice([193, 70, 1]), "trigger": "with_ack"}
                    if rng2.random() < 0.4:
                        # ... or a frame FOR the origin (from that child) lands right behind the ACK
                        ms["foreign"] = {"to": ms["foreign"]["to"], "type": rng2.choice([1, 64, 100]), "trigger": "behind_ack"}
            if ms["plan"] is None and "foreign" not in ms and "mc" not in ms and len(path) >= 3 and rng2.random() < 0.25:
                # one hop is deaf for a while from its first attempt on: an outage that ends around the
                # moment the sending hop's tx_timeout runs out (a retry that begins before the deadline
                # and is acknowledged after it still delivered the frame)
                j = rng2.choice([len(path) - 2, rng2.randrange(len(path) - 1)])
                ms["plan"] = {"kind": "fwd_outage", "node": path[j], "ms": round(tx_to + rng2.uniform(-3.0, 14.0), 2)}
            if ms["plan"] is None and "foreign" not in ms and "mc" not in ms and len(path) >= 3 and rng2.random() < 0.15:
                # the origin's application has not read anything for a while: its queue is full
                # (six frames) when it sends; nothing is lost on the way
                ms["qfull"] = rng2.choice([6, 6, 5])
            msgs.append(ms)
            if rng.random() < 0.25:
                # the application sends the same header object again (same id, same type)
                again = dict(ms, again=True, plan=None)
                again.pop("foreign", None)
                if rng.random() < 0.3 and plan:
                    again["plan"] = plan
                msgs.append(again)
        yield {"nodes": nodes, "msgs": msgs, "tx_timeout": tx_to, "route_timeout": rt_to,
               "mc_off": [a for a in nodes if rng.random() < 0.25],
               "relay": [a for a in nodes if a and rng.random() < 0.35],
               # multicast_level re-assigned on some nodes (it has no say in unicast routing)
               "mlevel": {str(a): rng.choice([l for l in range(0, 5) if l != net_ref.level(a)])
                          for a in nodes if i % 3 == 0 and rng.random() < 0.35},
               "profiles": {str(a): N.rand_profile(rng, base=base) for a in nodes},
               "seed": rng.getrandbits(30)}


def run_case(ctx, case):
    net = N.Net(seed=case["seed"])
    try:
        _run(ctx, case, net)
    finally:
        net.close()


def _run(ctx, case, net):
    m = net.m
    Hdr = m["structs"].RF24NetworkHeader
    nodes = case["nodes"]
    for a in nodes:
        def setup(o, a=a):
            o.tx_timeout = case["tx_timeout"]
            o.route_timeout = case["route_timeout"]
            if a in case.get("relay", ()) and 1 <= case.get("mlevel", {}).get(str(a), net_ref.level(a)) <= 3:
                # (relaying is specified for levels 1..3; two relays that both override their level
                # to 0 re-broadcast each other's frames to level 0 for ever - DESIGN 10.4, not judged)
                o.multicast_relay = True
            if a in case.get("mc_off", ()):
                o.allow_multicast = False
                o.node_address = a  # the documented way to apply it (pipe 0 moves to the node's own address)
            if str(a) in case.get("mlevel", {}):
                o.multicast_level = case["mlevel"][str(a)]
        net.add("net", a, profile=case["profiles"][str(a)], setup=setup)
    active = {"plan": None, "mid": None, "origin": None, "foreign": None}
    last_hdr = {}

    def fault(pkt, rx):
        pl = active["plan"]
        fo = active["foreign"]
        if (fo is not None and fo.get("trigger") == "first_hop" and pkt.kind == "data" and len(pkt.payload) >= 8
                and pkt.src is net.bykey[active["origin"]].radio):
            h0 = net_ref.unpack_header(pkt.payload)
            if h0["id"] == active["mid"] and h0["from"] == active["origin"] and h0["type"] != net_ref.NETWORK_ACK:
                active["foreign"] = None
                frame = net_ref.pack_header(fo["to"], fo["to"], FOREIGN_ID, fo["type"], 0)
                net.world.at(pkt.t1 + fo["delay_us"] * W.US + 400 * W.US, net.bykey[active["origin"]].radio.inject_rx, 0, frame)
                ctx.count("foreign_frames_injected_without_loss")
        if (fo is not None and fo.get("trigger") == "with_ack" and pkt.kind == "data" and len(pkt.payload) >= 8
                and rx is net.bykey[active["origin"]].radio and not rx.rx_fifo):
            h0 = net_ref.unpack_header(pkt.payload)
            if h0["id"] == active["mid"] and h0["type"] == net_ref.NETWORK_ACK and h0["from"] == h0["to"] == active["origin"]:
                # the origin's radio is about to take its NETWORK_ACK: a frame it must relay (to a
                # child that is not there) got in just before, so both wait in the RX FIFO
                active["foreign"] = None
                rx.inject_rx(0, net_ref.pack_header(fo["to"], fo["to"], FOREIGN_ID, fo["type"], 0))
                ctx.count("foreign_frames_queued_ahead_of_the_ack")
        if (fo is not None and fo.get("trigger") == "behind_ack" and pkt.kind == "data" and len(pkt.payload) >= 8
                and rx is net.bykey[active["origin"]].radio and not rx.rx_fifo):
            h0 = net_ref.unpack_header(pkt.payload)
            if h0["id"] == active["mid"] and h0["type"] == net_ref.NETWORK_ACK and h0["from"] == h0["to"] == active["origin"]:
                active["foreign"] = None
                net.world.at(net.world.now + 2 * W.US, rx.inject_rx, 1,
                             net_ref.pack_header(fo["to"], active["origin"], FOREIGN_ID, fo["type"], 0) + b"hello")
                ctx.count("foreign_frames_queued_right_behind_the_ack")
        if pl is None or pkt.kind != "data" or len(pkt.payload) < 8:
            return False
        h = net_ref.unpack_header(pkt.payload)
        if h["id"] != active["mid"] or pkt.src is not net.bykey[pl["node"]].radio:
            return False
        is_ack = h["type"] == net_ref.NETWORK_ACK and h["from"] == h["to"] == active["origin"]
        if pl["kind"] == "fwd_outage":
            if is_ack or h["from"] != active["origin"]:
                return False
            if "until" not in pl:
                pl["until"] = pkt.t0 + int(pl["ms"] * W.MS)
                ctx.count("forward_outages")
            return pkt.t0 < pl["until"]
        if pl["kind"] == "ack":
            fo = active["foreign"]
            if is_ack and fo is not None:
                active["foreign"] = None
                frame = net_ref.pack_header(fo["to"], fo["to"], FOREIGN_ID, fo["type"], 0)
                net.world.at(pkt.t1 + fo["delay_us"] * W.US, net.bykey[active["origin"]].radio.inject_rx,
                             0, frame)
                ctx.count("foreign_frames_injected")
            return is_ack
        return (not is_ack) and h["from"] == active["origin"]
    net.air.fault = fault
    for k, ms in enumerate(case["msgs"]):
        def fn(nn, ms=ms):
            if "mc" in ms:
                active["plan"] = None
                r = nn.obj.multicast(bytes([k & 0xFF]) * ms["len"], ms["type"], ms["mc"]) if ms["mc"] is not None \
                    else nn.obj.multicast(bytes([k & 0xFF]) * ms["len"], ms["type"])
                ms["_fid"] = nn.obj.frame_buf.header.frame_id
                return r
            if ms.get("again") and ms["src"] in last_hdr:
                h = last_hdr[ms["src"]]
                h.to_node, h.message_type = ms["dst"], ms["type"]
                ctx.count("same_header_resent")
            else:
                h = Hdr(ms["dst"], ms["type"])
            last_hdr[ms["src"]] = h
            if ms.get("qfull"):
                for q in range(ms["qfull"]):
                    nn.radio.inject_rx(1, net_ref.pack_header(ms["dst"], ms["src"], 0x6000 + 8 * k + q, 3, 0) + b"unread")
                    if q % 3 == 2 or q == ms["qfull"] - 1:
                        nn.obj.update()
                ctx.count("origins_sending_with_%d_unread_frames_queued" % len(nn.obj.queue))
            ms["_fid"] = h.frame_id
            active["plan"], active["mid"], active["origin"] = (dict(ms["plan"]) if ms["plan"] else None), h.frame_id, ms["src"]
            active["foreign"] = ms.get("foreign") if h.frame_id != FOREIGN_ID else None
            return nn.obj.send(h, bytes([k & 0xFF]) * ms["len"])
        net.steps.append({"who": ms["src"], "name": "send", "fn": fn, "deadline_ms": 4000,
                          "gap": 10 * W.MS})
    if not net.run(wall_timeout=120):
        ctx.count("watchdog_inconclusive")
        return
    for nn in net.nodes:
        if nn.exc is not None:
            ctx.violation("exception-in-node", "node %s: %r" % (oct(nn.obj.node_address), nn.exc), case)
            return
    for nn in net.nodes:
        for e in nn.applog:
            if e["type"] == net_ref.NETWORK_ACK and e["from"] == e["to"]:
                ctx.violation("network-ack-handed-to-application", "node %s's application read a "
                              "NETWORK_ACK frame (from=to=%s id %d)" % (oct(nn.obj.node_address),
                                                                        oct(e["from"]), e["id"]), case)
                return
    for rec in net.results:
        ms = case["msgs"][rec["i"]]
        src, dst, t = ms["src"], ms["dst"], ms["type"]
        path = [src] + net_ref.tree_path(src, dst)
        hops = len(path) - 1
        plan = ms["plan"]
        what = "message %d %s->%s (%d hops) type %d plan %r" % (rec["i"], oct(src), oct(dst), hops, t, plan)
        if rec["exc"]:
            ctx.violation("write-raised" if rec["exc"] != "deadline" else "write-no-return",
                          "%s: %s" % (what, rec["exc"]), case)
            return
        nxt = [r["air0"] for r in net.results if r["i"] == rec["i"] + 1]
        pk = [p for p in net.air.log[rec["air0"]:(nxt[0] if nxt else None)]
              if p.kind == "data" and len(p.payload) >= 8]
        hd = [(p, net_ref.unpack_header(p.payload)) for p in pk]
        if "mc" in ms:
            ctx.clause("no_ack_for_others")
            na = [(p, h) for p, h in hd if h["type"] == net_ref.NETWORK_ACK and h["from"] == h["to"]]
            if na:
                ctx.violation("multicast-caused-network-ack", "multicast of type %d from %s to level %r "
                              "(relays %r): %d NETWORK_ACK packet(s) on air, first sent by %s to %s"
                              % (t, oct(src), ms["mc"], [oct(a) for a in case.get("relay", [])], len(na),
                                 na[0][0].src.name, oct(na[0][1]["to"])), case)
                return
            if pk:
                ctx.nontrivial(("mc", ms["mc"], t >= 65 and t <= 191, bool(case.get("relay"))))
            continue
        acks = [(p, h) for p, h in hd if h["type"] == net_ref.NETWORK_ACK and h["from"] == h["to"]
                and h["id"] == ms.get("_fid")]
        fwd = [(p, h) for p, h in hd if h["id"] == ms.get("_fid") and h["from"] == src
               and not (h["type"] == net_ref.NETWORK_ACK and h["from"] == h["to"])]
        expects = 65 <= t <= 191 and hops >= 2
        prof = case["profiles"][str(src)]
        # ---- duration
        ctx.clause("duration_bound")
        dur = (rec["t_ret"] - rec["t_call"]) / 1e6
        bound = case["tx_timeout"] + 110 + (case["route_timeout"] if expects else 0) + 40 * prof["spi_overhead"] / 1e6
        if dur > bound:
            ctx.violation("write-blocks-too-long", "%s took %.1f virtual ms, timeouts allow %.1f "
                          "(tx_timeout %d route_timeout %d)" % (what, dur, bound, case["tx_timeout"],
                                                                case["route_timeout"]), case)
            return
        # ---- who originated NETWORK_ACKs, how many
        delivered_final = any(o == (net.bykey[dst].radio.name, "rx:%s" % o[1][3:]) or
                              (o[0] == net.bykey[dst].radio.name and o[1].startswith(("rx:", "dup:")))
                              for p, h in fwd for o in p.outcomes if p.src is net.bykey[path[-2]].radio)
        originators = {}
        received_ack = set()
        for p, h in sorted(acks, key=lambda x: x[0].t0):
            name = p.src.name
            if name not in received_ack:
                originators.setdefault(name, set()).add(p.pid)
            for rn, o in p.outcomes:
                if o.startswith("rx:"):
                    received_ack.add(rn)
        n_orig = sum(len(v) for v in originators.values())
        if not expects:
            ctx.clause("no_ack_for_others")
            if acks:
                ctx.violation("unexpected-network-ack", "%s caused %d NETWORK_ACK packet(s) on air"
                              % (what, len(acks)), case)
                return
        else:
            ctx.clause("ack_count")
            want = 1 if delivered_final else 0
            last_hop = net.bykey[path[-2]].radio.name
            if n_orig != want or (want and list(originators) != [last_hop]):
                ctx.violation("network-ack-count", "%s: reached final hop=%s; NETWORK_ACK originated "
                              "%d time(s) by %r, expected %d by %s"
                              % (what, delivered_final, n_orig, {k: sorted(v) for k, v in originators.items()},
                                 want, last_hop), case)
                return
        # ---- result vs. arrival of a NETWORK_ACK at the origin's radio
        first_acc = [p.t1 for p, h in fwd if p.src is net.bykey[src].radio
                     and any(o.startswith(("rx:", "dup:")) for _, o in p.outcomes)]
        ctx.clause("result_vs_ack_arrival")
        if not expects:
            want_ret = bool(first_acc)
            if rec["ret"] is not want_ret:
                ctx.violation("result-without-ack-wait", "%s returned %r, first hop accepted the "
                              "frame: %s" % (what, rec["ret"], bool(first_acc)), case)
                return
        else:
            origin_radio = net.bykey[src].radio.name
            arr = [p.t1 for p, h in acks if (origin_radio, "rx:") in [(rn, o[:3]) for rn, o in p.outcomes]]
            guard = 25 * prof["spi_overhead"] + 3 * max(prof["poll"], 500000) + 2 * W.MS
            if not first_acc:
                want_ret, amb = False, False
            elif not arr:
                want_ret, amb = False, False
            else:
                delta = arr[0] - first_acc[0]
                lim = case["route_timeout"] * W.MS
                amb = lim - guard <= delta <= lim + guard
                want_ret = delta < lim
            if not amb and rec["ret"] is not want_ret:
                mech = ""
                if rec["ret"] is True and arr and (ms.get("foreign") or {}).get("trigger") == "first_hop":
                    # the ACK did arrive, after route_timeout, while the origin was busy relaying a
                    # foreign frame inside its wait loop (the loop looks at the clock only between
                    # update() calls and accepts an ACK whenever it finds one)
                    mech = "/late-ack-found-after-relaying-inside-the-wait"
                ctx.violation("result-vs-network-ack/" + ("true-without-ack" if rec["ret"] else "false-despite-ack") + mech,
                              "%s returned %r; NETWORK_ACK arrivals at the origin: %r ms after the "
                              "first hop took the frame (route_timeout %d ms)"
                              % (what, rec["ret"], [round((a - first_acc[0]) / 1e6, 2) for a in arr] if first_acc else arr,
                                 case["route_timeout"]), case)
                if mech:
                    continue
                return
            if amb:
                ctx.count("guard_band_cases")
        if fwd:
            cls = "ack" if 65 <= t <= 191 else ("user" if t < 65 else "sys")
            ctx.nontrivial((hops, cls, plan["kind"] if plan else None,
                            path.index(plan["node"]) if plan else None, case["tx_timeout"],
                            case["route_timeout"], prof["spi_overhead"]))
    ctx.count("messages_judged", len(net.results))
    ctx.distinct("air_order_digests", net.air_digest())
    for st in net.radio_states():
        ctx.distinct("radio_states", st)
    ctx.sample({"nodes": [oct(a) for a in nodes], "tx_timeout": case["tx_timeout"],
                "route_timeout": case["route_timeout"], "messages": len(net.results),
                "air_packets": len(net.air.log), "first": case["msgs"][:2]})
