"""C16 - the mesh master leases each logical address to at most one node ID. DESIGN §4/C16."""
import itertools
import json
import shutil
import os
import random
import struct
import tempfile

from refmodels import net_ref
from vsim import world as W
from vsim.radio import Phantom
from vsim.rig import Rig, repo

PROP = "C16"
RULE = ("a real RF24Mesh master on a simulated radio; address requests injected as frames (direct "
        "from 0o4444, or relayed with origin = a connected node of level 1..3), releases, "
        "re-requests, set_address()/release_address(addr) calls: all event sequences up to depth 4 "
        "(quick) / 5 (thorough) over 3 IDs x 3 via-nodes + releases, plus seeded random depth-60 "
        "histories with IDs 1..255 and full / nearly full parents; after every event the table "
        "must be injective and every reply on air (MESH_ADDR_RESPONSE) must carry the requester's "
        "ID, a valid free direct child of the via node, and be transmitted to an address the "
        "first hop towards the requester really listens on (listening addresses learnt from real "
        "nodes). save_dhcp()/load_dhcp() round trips for every table size 0..255 in both formats. "
        "Non-trivial: >=1 lease granted or refused; distinct = distinct event histories.")
RULE += (" Later rounds added: non-request frames and requests arriving while the master transmits, an exact release oracle, persistence after the saved table changed (same and new file), ID look-ups of leased addresses, a JSON table loaded mid-history that hands a leased address to another ID, the displaced ID asking again, JSON tables that re-deal the leased addresses among the present IDs (clause loaded_pairs_present), releases whose reserved byte holds the node's own ID, another leased ID or an unknown one; every ID 1..255 as the first entry of a saved table.")
REQUIRED = {"table_injective": 20000, "reply_checks": 5000, "release_reassign": 40,
            "persistence_roundtrip": 150, "persistence_after_changes": 500}
BUDGET = {"quick": 480, "thorough": 900}

VIAS = [0o4444, 0o2, 0o32]
IDS = [7, 8, 9]
EVENTS = [["req", i, v] for i in IDS for v in VIAS] + [["rel", i] for i in IDS]

_listen_cache = {}


def listening_addresses():
    """what real nodes listen on: {logical address: set of 5-byte addresses}"""
    if _listen_cache:
        return _listen_cache
    m = repo()
    prev = W.current_node()  # building a second rig re-binds this thread: restore afterwards
    rig = Rig(seed=0)
    try:
        for a in [1, 2, 3, 4, 5]:
            r = rig.radio("l%o" % a)
            rig.driver(r, cls=m["rf24_network"].RF24Network, node_address=a)
            _listen_cache[a] = {r.pipe_addr(p) for p in range(6)}
        r = rig.radio("unassigned")
        rig.driver(r, cls=m["rf24_mesh"].RF24MeshNoMaster, node_id=99)
        _listen_cache[0o4444] = {r.pipe_addr(p) for p in range(6)}
    finally:
        rig.close()
        if prev is not None:
            prev.world.bind(prev)
    return _listen_cache


class Lease:
    """reference lease model"""

    def __init__(self):
        self.t = {}

    def free_slots(self, via):
        base = 0 if via == 0o4444 else via
        sh = 3 * net_ref.level(base)
        used = set(self.t.values())
        return [base | (i << sh) for i in range(1, 6)
                if (base | (i << sh)) not in used and (base | (i << sh)) != 0o4444]


def gen_cases(ctx):
    depth = 4 if ctx.tier == "quick" else 5
    for d in range(1, depth + 1):
        for seq in itertools.product(range(len(EVENTS)), repeat=d):
            # sequences that start with a release of nothing are covered by longer ones
            yield {"part": "seq", "events": [EVENTS[i] for i in seq]}
    rng = ctx.sub_rng("c16")
    for w in range(60 if ctx.tier == "quick" else 4000):
        ev = []
        vias = [0o4444, 0o1, 0o3, 0o23, 0o123, 0o5]
        prefill = rng.choice([0, 0, 3, 4, 5])
        for i in range(prefill):
            ev.append(["req", 100 + i, rng.choice([0o4444, 0o3])])
        for _ in range(60):
            r = rng.random()
            if r < 0.6:
                ev.append(["req", rng.randrange(1, 256), rng.choice(vias)])
            elif r < 0.8:
                ev.append(["rel", rng.randrange(1, 256)])
            elif r < 0.84:
                ev.append(["lookup_frame", rng.choice([0o1, 0o3, 0o23, 0o5]), rng.randrange(1, 256)])
            elif r < 0.87:
                ev.append(["data_frame", rng.choice([0o2, 0o3, 0o13, 0o4]), rng.randrange(0, 256)])
            elif r < 0.89:
                ev.append(["req_busy", rng.randrange(1, 256), rng.choice([0o23, 0o123, 0o13])])
            elif r < 0.92:
                ev.append(["rel_addr", rng.choice([0o1, 0o2, 0o13, 0o23, 0o5])])
            else:
                ev.append(["set", rng.randrange(1, 256), rng.choice([0o15, 0o25, 0o35, 0o45, 0o55])])
        yield {"part": "seq", "events": ev, "seed": w}
    # tables changed behind the allocator's back (a JSON table loaded mid-history hands a leased
    # address to another ID) with look-ups of either kind before it and the displaced ID asking again
    for via in (0o4444, 0o2, 0o32, 0o3):
        for pre in ([], [["id_lookup", 0o1, 0]], [["id_lookup", 0o3, 1]], [["lookup_frame", 0o1, 7]],
                    [["id_lookup", 0o1, 0], ["id_lookup", 0o1, 1]], [["id_lookup", 0o1, 1], ["id_lookup", 0o1, 0]]):
            for k in (0, 1):
                for tail in ([["rereq", 0]], [["rereq", 0], ["rereq", 1]], [["req", 8, via], ["rereq", 0]],
                             [["req", 9, via], ["rereq", 0]]):
                    yield {"part": "seq", "events": [["req", 7, via], ["req", 8, via]] + pre
                           + [["load_json", 9, k]] + tail}
    for via in (0o4444, 0o2, 0o3):
        for n in (2, 3, 4):
            for sd in range(12):
                yield {"part": "seq", "events": [["req", 20 + j, via] for j in range(n)] + [["load_json_multi", sd]]
                       + [["req", 40, via], ["rereq", 0], ["load_json_multi", sd + 100], ["req", 41, via]]}
    for via in (0o4444, 0o2, 0o3):
        for mode in ("own", "other", "unknown"):
            for which in (0, 1):
                yield {"part": "seq", "events": [["req", 20, via], ["req", 21, via], ["req", 22, via],
                                                 ["rel_r", 20 + which, mode, which], ["req", 30, via], ["req", 20 + which, via]]}
    rng2 = ctx.sub_rng("c16b")
    for w in range(150 if ctx.tier == "quick" else 6000):
        ev = []
        ids = rng2.sample(range(1, 256), 6)
        vias = rng2.sample([0o4444, 0o1, 0o3, 0o23, 0o123, 0o5, 0o2], 3)
        for _ in range(40):
            r = rng2.random()
            if r < 0.4:
                ev.append(["req", rng2.choice(ids), rng2.choice(vias)])
            elif r < 0.5:
                ev.append(["rel_r", rng2.choice(ids), rng2.choice(["own", "other", "other", "unknown"]), rng2.randrange(6)])
            elif r < 0.65:
                ev.append(["id_lookup", rng2.choice([0o1, 0o3, 0o23]), rng2.randrange(8)])
            elif r < 0.7:
                ev.append(["lookup_frame", rng2.choice([0o1, 0o3]), rng2.choice(ids)])
            elif r < 0.77:
                ev.append(["load_json", rng2.choice(ids), rng2.randrange(8)])
            elif r < 0.82:
                ev.append(["load_json_multi", rng2.randrange(1 << 20)])
            elif r < 0.9:
                ev.append(["rereq", rng2.randrange(3)])
            elif r < 0.95:
                ev.append([rng2.choice(["req_busy2", "req_busy_ack"]), rng2.choice(ids), rng2.choice([0o23, 0o123, 0o13])])
            else:
                ev.append(["rel_addr", rng2.choice([0o1, 0o2, 0o13, 0o23, 0o5])])
        yield {"part": "seq", "events": ev, "seed": 5000 + w}
    # a parent is filled, one lease released, a new ID asks: the released address is available
    for via in (0o4444, 0o1, 0o2, 0o5, 0o32, 0o14, 0o55, 0o132, 0o315, 0o444):
        for k in range(5):
            yield {"part": "refill", "via": via, "release_index": k}
    for via in (0o23, 0o123, 0o13, 0o343, 0o51):
        for nid in (7, 200):
            yield {"part": "seq", "events": [["req", 5, 0o4444], ["req_busy", nid, via], ["req", 9, via]]}
            for kind in ("req_busy2", "req_busy_ack"):
                yield {"part": "seq", "events": [["req", 5, 0o4444], [kind, nid, via], ["req", 9, via], [kind, nid, via]]}
    for n in range(0, 256, 1 if ctx.tier == "thorough" else 3):
        for as_bin in (False, True):
            yield {"part": "persist", "n": n, "as_bin": as_bin, "seed": n}
    # every ID 1..255 as the FIRST entry of a saved table (the first bytes of the file), alone and
    # followed by two more entries, both formats
    for first in range(1, 256):
        for n in (1, 3):
            for as_bin in (False, True):
                yield {"part": "persist", "n": n, "as_bin": as_bin, "seed": 1000 + first, "first_id": first}


def request_frame(node_id, via, fid):
    frm = 0o4444 if via == 0o4444 else via
    return net_ref.pack_header(frm, 0, fid, 195, node_id)


def run_case(ctx, case):
    if case["part"] == "persist":
        return run_persist(ctx, case)
    m = repo()
    rig = Rig(seed=5, profile=W.Profile(spi_overhead=30000, jitter=0.0))
    try:
        rig.air.promisc = Phantom()
        radio = rig.radio("master")
        master = rig.driver(radio, cls=m["rf24_mesh"].RF24Mesh, node_id=0)
        master.route_timeout = 6  # application setting: keeps relayed replies cheap
        if case["part"] == "refill":
            run_refill(ctx, case, rig, radio, master)
        else:
            run_seq(ctx, case, rig, radio, master)
    finally:
        rig.close()


def one_event(ctx, case, rig, radio, master, ref, ev, hist, fid):
    """apply one event to the real master; returns False after a violation"""
    node = rig.node
    before = dict(master.dhcp_dict)
    air0 = len(rig.air.log)
    node.deadline = node.t + 2000 * W.MS
    try:
        if ev[0] == "req":
            radio.inject_rx(0 if ev[2] == 0o4444 else 2, request_frame(ev[1], ev[2], fid))
            master.update()
        elif ev[0] == "rel":
            addr = before.get(ev[1])
            if addr is None:
                return True
            radio.inject_rx(3, net_ref.pack_header(addr, 0, fid, 197, 0))
            master.update()
        elif ev[0] == "rel_r":
            # a release as real nodes send it: the header's reserved byte holds whatever the node's
            # frame buffer held last - its own ID (after joining), 0, or the ID of a child whose
            # address reply / look-ups it passed along
            addr = before.get(ev[1])
            if addr is None:
                return True
            others = sorted(k for k in before if k != ev[1])
            resv = {"own": ev[1], "other": others[ev[3] % len(others)] if others else 0, "unknown": 251}[ev[2]]
            radio.inject_rx(3, net_ref.pack_header(addr, 0, fid, 197, resv))
            master.update()
            ctx.count("releases_with_reserved_%s" % ev[2])
        elif ev[0] == "lookup_frame":
            # a connected node asks for an ID's address: never a lease event
            radio.inject_rx(4, net_ref.pack_header(ev[1], 0, fid, 196, ev[2] & 0xFF) + bytes([ev[2] & 0xFF]))
            master.update()
        elif ev[0] == "id_lookup":
            # a connected node asks which ID holds the k-th leased address: never a lease event
            held = sorted(before.values())
            if not held:
                return True
            radio.inject_rx(4, net_ref.pack_header(ev[1], 0, fid, 198, 0) + struct.pack("<H", held[ev[2] % len(held)]))
            master.update()
            ctx.count("id_lookups_of_held_addresses")
        elif ev[0] == "load_json":
            # the operator loads a JSON table in which the k-th leased address belongs to another ID
            held = sorted(before.values())
            if not held:
                return True
            d = tempfile.mkdtemp(prefix="c16_", dir="/dev/shm")
            try:
                fn = os.path.join(d, "t.json")
                with open(fn, "w") as f:
                    json.dump({str(ev[1]): held[ev[2] % len(held)]}, f)
                master.load_dhcp(fn)
            finally:
                shutil.rmtree(d, ignore_errors=True)
            ctx.count("json_tables_loaded_mid_history")
        elif ev[0] == "load_json_multi":
            # a JSON table that re-deals the leased addresses among the present IDs (every ID gets
            # another ID's address), entries in a seeded order, plus one newcomer
            ids = sorted(before)
            if len(ids) < 2:
                return True
            r = random.Random(ev[1])
            k = r.randrange(1, len(ids))
            pairs = [(ids[i], before[ids[(i + k) % len(ids)]]) for i in range(len(ids))]
            r.shuffle(pairs)
            pairs = pairs[:r.randrange(2, len(pairs) + 1)]
            loaded_pairs = dict(pairs)
            d = tempfile.mkdtemp(prefix="c16_", dir="/dev/shm")
            try:
                fn = os.path.join(d, "t.json")
                with open(fn, "w") as f:
                    json.dump({str(a): b for a, b in pairs}, f)
                master.load_dhcp(fn)
            finally:
                shutil.rmtree(d, ignore_errors=True)
            ctx.clause("loaded_pairs_present")
            missing = {a: b for a, b in loaded_pairs.items() if master.dhcp_dict.get(a) != b}
            if missing:
                ctx.violation("loaded-table-incomplete", "load_dhcp() of the JSON table %r into the live table %r left %r; "
                              "missing/changed pairs %r (history %r)" % (pairs, before, dict(master.dhcp_dict), missing,
                                                                         hist[-6:]), case)
                return False
            ctx.count("json_tables_redealing_live_leases")
        elif ev[0] == "rereq":
            # an ID that asked before and holds nothing now asks again, the way it did last time
            past = [e for e in hist[:-1] if e[0] == "req" and e[1] not in before]
            if not past:
                return True
            ev = ["req", past[-1 - ev[1] % len(past)][1], past[-1 - ev[1] % len(past)][2]]
            hist[-1] = ev
            radio.inject_rx(0 if ev[2] == 0o4444 else 2, request_frame(ev[1], ev[2], fid))
            master.update()
            ctx.count("displaced_ids_asking_again")
        elif ev[0] == "data_frame":
            radio.inject_rx(2, net_ref.pack_header(ev[1], 0, fid, 5, ev[2] & 0xFF) + b"user data")
            master.update()
            while master.available():
                master.read()
        elif ev[0] in ("req_busy2", "req_busy_ack"):
            # like req_busy, but the other frame arrives during the master's SECOND wait (after its
            # retry) / is followed by the NETWORK_ACK the master is waiting for
            radio.inject_rx(2, request_frame(ev[1], ev[2], fid))
            other = net_ref.pack_header(0o3, 0, fid + 1000, 196, 99) + bytes([200])
            hs = [rig.world.at(node.t + 3 * W.MS, radio.inject_rx, 5, other)]
            if ev[0] == "req_busy2":
                other2 = net_ref.pack_header(0o3, 0, fid + 1001, 196, 98) + bytes([201])
                hs.append(rig.world.at(node.t + 11 * W.MS, radio.inject_rx, 5, other2))
            else:
                hs.append(rig.world.at(node.t + 4500 * W.US, radio.inject_rx, 1,
                                       net_ref.pack_header(0, 0, fid, 193, 77)))
            master.update()
            for h in hs:
                rig.world.cancel(h)
            for _ in range(3):
                if not radio.rx_fifo:
                    break
                master.update()
            ctx.count("requests_with_frames_in_the_%s" % ("second_wait" if ev[0] == "req_busy2" else "wait_then_acked"))
        elif ev[0] == "req_busy":
            # a relayed request while another frame arrives during the master's NETWORK_ACK wait
            radio.inject_rx(2, request_frame(ev[1], ev[2], fid))
            other = net_ref.pack_header(0o3, 0, fid + 1000, 196, 99) + bytes([200])
            h = rig.world.at(node.t + 3 * W.MS, radio.inject_rx, 5, other)
            master.update()
            rig.world.cancel(h)  # (a refused request returns before the frame would have arrived)
            for _ in range(3):
                if not radio.rx_fifo:
                    break
                master.update()
        elif ev[0] == "rel_addr":
            master.release_address(ev[1])
        elif ev[0] == "set":
            master.set_address(ev[1], ev[2], True)
    except Exception as e:  # noqa: BLE001
        ctx.violation("master-raises/%s" % ev[0], "event %r raised %r (history %r)" % (ev, e, hist[-8:]), case)
        return False
    finally:
        node.deadline = None
    node.idle(1 * W.MS)
    table = dict(master.dhcp_dict)
    ctx.clause("table_injective")
    inv = {}
    for k, v in table.items():
        if v in inv:
            ctx.violation("two-ids-one-address", "after %r the table maps IDs %d and %d to %s "
                          "(history %r)" % (ev, inv[v], k, oct(v), hist[-8:]), case)
            return False
        inv[v] = k
    if ev[0] in ("rel", "rel_r", "lookup_frame", "data_frame", "id_lookup"):
        # exactly the released lease disappears / nothing changes; nobody is sent an address
        exp = dict(before)
        if ev[0] in ("rel", "rel_r"):
            exp = {k: v for k, v in before.items() if v != before.get(ev[1])}
        stray = [p for p in rig.air.log[air0:] if p.kind == "data" and p.src is radio
                 and len(p.payload) >= 8 and p.payload[6] == 128]
        if table != exp or stray:
            ctx.violation("lease-event-without-request/%s" % ev[0],
                          "after the %s frame the table changed %r -> %r and %d address replies went on air "
                          "(history %r)" % (ev[0], {k: oct(v) for k, v in before.items()},
                                            {k: oct(v) for k, v in table.items()}, len(stray), hist[-8:]), case)
            return False
    if ev[0] in ("req", "req_busy", "req_busy2", "req_busy_ack"):
        nid, via = ev[1], ev[2]
        replies = [p for p in rig.air.log[air0:] if p.kind == "data" and p.src is radio
                   and len(p.payload) >= 10 and p.payload[6] == 128 and p.attempt == 0]
        granted = table.get(nid) if table.get(nid) != before.get(nid) or replies else None
        base = 0 if via == 0o4444 else via
        ctx.clause("reply_checks")
        free = [a for a in ref.free_slots(via) if True]
        own = before.get(nid)
        if replies:
            h = net_ref.unpack_header(replies[0].payload)
            addr = struct.unpack("<H", replies[0].payload[8:10])[0]
            why = None
            if h["reserved"] != nid:
                why = "reply carries ID %d, requester is %d" % (h["reserved"], nid)
            elif not net_ref.is_node_address(addr) or addr in (0, 0o4444):
                why = "address %s is not a valid assignable address" % oct(addr)
            elif net_ref.parent(addr) != base:
                why = "address %s is not a direct child of %s" % (oct(addr), oct(base))
            elif any(k != nid and v == addr for k, v in before.items()):
                why = "address %s is leased to ID %d" % (oct(addr), [k for k, v in before.items() if v == addr][0])
            elif table.get(nid) != addr:
                why = "reply says %s, table holds %r for the ID" % (oct(addr), table.get(nid))
            elif len({bytes(p.payload) for p in replies}) != 1 or len(replies) > 2:
                why = "%d differing/too many replies" % len(replies)
            else:
                # addressing: destination and the first hop's real listening addresses
                la = listening_addresses()
                if via == 0o4444:
                    ok = h["to"] == 0o4444 and replies[0].addr in la[0o4444]
                else:
                    first = net_ref.next_hop(0, via)
                    ok = h["to"] == via and replies[0].addr in la[first]
                if not ok:
                    why = "reply to %s transmitted to %s which the first hop does not listen on" % (
                        oct(h["to"]), replies[0].addr.hex())
            if why:
                ctx.violation("bad-lease-reply", "request ID %d via %s: %s (history %r)"
                              % (nid, oct(via), why, hist[-8:]), case)
                return False
        else:
            slots14 = [a for a in free if (a >> (3 * net_ref.level(base))) <= 4] if via != 0o4444 else free
            own_slot = (own >> (3 * net_ref.level(base))) if own is not None else 0
            own_ok = (own is not None and net_ref.parent(own) == base
                      and (via == 0o4444 or own_slot <= 4))  # relays hand out child slots 1..4 only
            if (slots14 and own is None) or own_ok:
                ctx.violation("no-reply-although-free", "request ID %d via %s got no reply although "
                              "%s is free (table %r; history %r)" % (nid, oct(via),
                                                                    [oct(a) for a in slots14][:3] or oct(own),
                                                                    {k: oct(v) for k, v in before.items()}, hist[-8:]), case)
                return False
    if ev[0] in ("req_busy", "req_busy2", "req_busy_ack"):
        extra = {k: v for k, v in table.items() if k not in before and k != ev[1]}
        if extra:
            ctx.violation("lease-under-foreign-id", "request of ID %d via %s while another frame arrived: the "
                          "table gained %r (history %r)" % (ev[1], oct(ev[2]), {k: oct(v) for k, v in extra.items()},
                                                            hist[-8:]), case)
            return False
    ref.t = dict(table)
    return True


def run_seq(ctx, case, rig, radio, master):
    ref = Lease()
    hist = []
    fid = 100
    granted = False
    for ev in case["events"]:
        fid += 1
        hist.append(ev)
        if not one_event(ctx, case, rig, radio, master, ref, ev, hist, fid):
            return
    if radio.san:
        ctx.violation("sanitizer:" + radio.san[0][0], radio.san[0][1], case)
        return
    ctx.nontrivial(repr(case["events"]))
    ctx.sample({"events": case["events"][:6], "table": {k: oct(v) for k, v in master.dhcp_dict.items()},
                "air_packets": len(rig.air.log)})


def run_refill(ctx, case, rig, radio, master):
    ref = Lease()
    via = case["via"]
    hist = []
    fid = 500
    base = 0 if via == 0o4444 else via
    n = len([a for a in ref.free_slots(via) if via == 0o4444 or (a >> (3 * net_ref.level(base))) <= 4])
    for i in range(n):
        fid += 1
        ev = ["req", 20 + i, via]
        hist.append(ev)
        if not one_event(ctx, case, rig, radio, master, ref, ev, hist, fid):
            return
    if len(master.dhcp_dict) != n:
        ctx.violation("parent-not-fillable", "%d requests via %s produced %d leases"
                      % (n, oct(via), len(master.dhcp_dict)), case)
        return
    # one request too many is refused ...
    hist.append(["req", 78, via])
    if not one_event(ctx, case, rig, radio, master, ref, ["req", 78, via], hist, fid + 50):
        return
    if 78 in master.dhcp_dict and net_ref.parent(master.dhcp_dict[78]) == base and (master.dhcp_dict[78] >> (3 * net_ref.level(base))) <= 4 and via != 0o4444:
        ctx.violation("lease-from-full-parent", "a 5th request via %s was granted %s" % (oct(via), oct(master.dhcp_dict[78])), case)
        return
    master.dhcp_dict.pop(78, None)
    ref.t.pop(78, None)
    # ... and the frames that follow it are not requests
    for ev in (["lookup_frame", master.dhcp_dict[20], 21], ["data_frame", master.dhcp_dict[20], 0]):
        hist.append(ev)
        if not one_event(ctx, case, rig, radio, master, ref, ev, hist, fid + 60 + len(hist)):
            return
    k = case["release_index"] % n
    victim = 20 + k
    addr = master.dhcp_dict[victim]
    hist.append(["rel", victim])
    if not one_event(ctx, case, rig, radio, master, ref, ["rel", victim], hist, fid + 1):
        return
    if victim in master.dhcp_dict:
        ctx.violation("release-ignored", "release of %s (ID %d) left the lease in place" % (oct(addr), victim), case)
        return
    hist.append(["req", 77, via])
    if not one_event(ctx, case, rig, radio, master, ref, ["req", 77, via], hist, fid + 2):
        return
    ctx.clause("release_reassign")
    if master.dhcp_dict.get(77) != addr:
        ctx.violation("released-address-not-reassigned", "after releasing %s the next request via %s "
                      "got %r" % (oct(addr), oct(via), master.dhcp_dict.get(77)), case)
        return
    ctx.nontrivial(("refill", via, k))


def run_persist(ctx, case):
    m = repo()
    rng = random.Random(case["seed"] * 31 + case["as_bin"])
    pool = [a for a in net_ref.all_addresses() if a and a != 0o4444]
    rig = Rig(seed=6)
    try:
        a = rig.driver(rig.radio("m1"), cls=m["rf24_mesh"].RF24Mesh, node_id=0)
        b = rig.driver(rig.radio("m2"), cls=m["rf24_mesh"].RF24Mesh, node_id=0)
        ids = rng.sample(range(1, 256), min(case["n"], 255))
        if case.get("first_id"):
            ids = [case["first_id"]] + [i for i in ids if i != case["first_id"]][:case["n"] - 1]
        addrs = rng.sample(pool, len(ids))
        for i, ad in zip(ids, addrs):
            a.set_address(i, ad)
        d = tempfile.mkdtemp(prefix="c16_", dir="/dev/shm")
        fn = os.path.join(d, "dhcp.bin" if case["as_bin"] else "dhcp.json")
        try:
            a.save_dhcp(fn, as_bin=case["as_bin"])
            b.load_dhcp(fn, as_bin=case["as_bin"])
        except Exception as e:  # noqa: BLE001
            ctx.violation("persistence-raises", "save/load of %d entries (as_bin=%s) raised %r"
                          % (case["n"], case["as_bin"], e), case)
            return
        finally:
            try:
                os.unlink(fn)
            except OSError:
                pass
            os.rmdir(d)
        ctx.clause("persistence_roundtrip")
        if dict(b.dhcp_dict) != dict(a.dhcp_dict) or any(type(k) is not int for k in b.dhcp_dict):
            ctx.violation("persistence-mismatch/%s" % ("bin" if case["as_bin"] else "json"),
                          "table of %d entries differs after save/load: %r vs %r"
                          % (case["n"], sorted(a.dhcp_dict.items())[:3], sorted(b.dhcp_dict.items())[:3]), case)
            return
        ctx.nontrivial(("persist", case["n"], case["as_bin"]))
        # ---- the same master goes on: leases are released / added / moved and the table is
        # saved again (over the old file and into a new one); a fresh master must load exactly
        # the current table each time
        d = tempfile.mkdtemp(prefix="c16_", dir="/dev/shm")
        try:
            for cyc in range(3):
                cur = dict(a.dhcp_dict)
                for ad in rng.sample(sorted(cur.values()), min(len(cur), rng.choice([0, 1, 2, len(cur) // 2, len(cur)]))):
                    a.release_address(ad)
                free_ids = [i for i in range(1, 256) if i not in a.dhcp_dict]
                free_ad = [x for x in pool if x not in a.dhcp_dict.values()]
                for i in rng.sample(free_ids, min(len(free_ids), rng.choice([0, 0, 1, 3]))):
                    a.set_address(i, free_ad.pop(rng.randrange(len(free_ad))))
                for name in ("same", "new%d" % cyc):
                    fn = os.path.join(d, name + (".bin" if case["as_bin"] else ".json"))
                    c = rig.driver(rig.radio("m%d%s" % (cyc, name[0])), cls=m["rf24_mesh"].RF24Mesh, node_id=0)
                    try:
                        a.save_dhcp(fn, as_bin=case["as_bin"])
                        c.load_dhcp(fn, as_bin=case["as_bin"])
                    except Exception as e:  # noqa: BLE001
                        ctx.violation("persistence-raises", "second save/load (%d entries, as_bin=%s) raised %r"
                                      % (len(a.dhcp_dict), case["as_bin"], e), case)
                        return
                    ctx.clause("persistence_after_changes")
                    if dict(c.dhcp_dict) != dict(a.dhcp_dict):
                        extra = {k: v for k, v in c.dhcp_dict.items() if a.dhcp_dict.get(k) != v}
                        ctx.violation("persistence-mismatch-after-changes/%s" % ("bin" if case["as_bin"] else "json"),
                                      "save #%d (%s file) of a table that had %d entries and now has %d: a fresh "
                                      "master loads %d entries; not in the saved table: %r"
                                      % (cyc + 2, name, len(cur), len(a.dhcp_dict), len(c.dhcp_dict),
                                         sorted(extra.items())[:4]), case)
                        return
        finally:
            for f in os.listdir(d):
                os.unlink(os.path.join(d, f))
            os.rmdir(d)
    finally:
        rig.close()
