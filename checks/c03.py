"""C03 - setters program the radio with the documented encoding; getters agree;
nothing else is touched; the cached view stays coherent.  DESIGN §4/C03."""
import itertools

from refmodels import cfg_ref
from vsim.rig import Rig, repo

PROP = "C03"
RULE = ("call sequences over the configuration alphabet on fresh RF24 objects: all ordered "
        "pairs (quick) / triples (thorough) of a core alphabet plus seeded random walks of "
        "depth 40; after every call the full 38-byte register file, CE and sanitizer log are "
        "compared with the reference model, getters are polled on half of the sequences, and "
        "each sequence ends with a with-block re-entry coherence probe. A case is non-trivial "
        "when at least one register write or exception was observed; distinct = distinct "
        "(chip variant, SPI flavour, call sequence with arguments, polling mode).")
RULE += (" Later rounds added: print_details()/print_pipes() as pure readers and argument types outside the documented forms, histories around pipe 0 (exhaustive over a small alphabet + templates), every call made while the carrier-wave test is on.")
REQUIRED = {"snapshot_compare": 5000, "getter_compare": 5000, "coherence_probe": 500,
            "sanitizer_scan": 5000, "exception_compare": 200}
ASSUMPTIONS = ["admitted alternatives: pa_level invalid -> ValueError or 0dBm+LNA; crc<0 -> "
               "clamp(x) or clamp(|x|); address_length outside 3..5 -> 2 bytes",
               "non-plus start_carrier_wave: IRQ mask bits of CONFIG are don't-care until "
               "the documented `with` restore"]
BUDGET = {"quick": 480, "thorough": 900}

A5 = "hex:3141424344"
B3 = "hex:c1c2c3"
C5 = "hex:a1a2a3a4a5"
T5 = "hex:e1f0f0f0f0"
T3 = "hex:77c2c3"

CORE = [
    ["channel", 0], ["channel", 125], ["channel", 126], ["channel", -1],
    ["data_rate", 2], ["data_rate", 250], ["data_rate", 1], ["data_rate", 3],
    ["pa_level", -18], ["pa_level", -6], ["pa_level", [-12, False]], ["pa_level", 5],
    ["crc", 0], ["crc", 1], ["crc", 3], ["crc", -1],
    ["address_length", 3], ["address_length", 4], ["address_length", 6],
    ["ard", 250], ["ard", 999], ["ard", 5000], ["arc", 0], ["arc", 16],
    ["set_auto_retries", 500, 3],
    ["auto_ack", False], ["auto_ack", 0x3E], ["auto_ack", [0, 1, -1, 1]],
    ["set_auto_ack", 0, 0], ["set_auto_ack", 0, 3], ["set_auto_ack", 1, 6],
    ["set_auto_ack", 0, -1],
    ["dynamic_payloads", False], ["dynamic_payloads", 0x2A],
    ["dynamic_payloads", [1, 0, -1, 0, 1, 1, 1]],
    ["set_dynamic_payloads", 0, 0], ["set_dynamic_payloads", 0, 2],
    ["set_dynamic_payloads", 1, 7],
    ["payload_length", 8], ["payload_length", 0], ["payload_length", [5, 0, 40, -3, 16]],
    ["set_payload_length", 16, None], ["set_payload_length", 40, 2],
    ["set_payload_length", 8, -1], ["set_payload_length", 0, 1],
    ["get_payload_length", -1], ["get_payload_length", 6],
    ["ack", True], ["ack", False],
    ["allow_ask_no_ack", False],
    ["interrupt_config", 0, 1, 0], ["interrupt_config", 1, 0, 1],
    ["power", True], ["power", False],
    ["listen", True], ["listen", False],
    ["open_rx_pipe", 0, A5], ["open_rx_pipe", 0, B3], ["open_rx_pipe", 1, C5],
    ["open_rx_pipe", 4, "hex:d4"], ["open_rx_pipe", 6, A5],
    ["close_rx_pipe", 0], ["close_rx_pipe", 1],
    ["open_tx_pipe", A5], ["open_tx_pipe", T3],
    ["reenter"],
]
EXTRA = [
    ["channel", 76], ["channel", 2], ["data_rate", 0], ["pa_level", -12], ["pa_level", 0],
    ["pa_level", [0, True]], ["pa_level", [-18, False]], ["pa_level", -5],
    ["crc", 2], ["crc", -2], ["crc", 100],
    ["address_length", 5], ["address_length", 2], ["address_length", 0],
    ["ard", 4000], ["ard", 0], ["ard", 1500], ["ard", 1749], ["arc", 15], ["arc", 7],
    ["arc", -1], ["set_auto_retries", 10000, 99], ["set_auto_retries", 0, -4],
    ["auto_ack", True], ["auto_ack", 0x15], ["auto_ack", 0xFF], ["auto_ack", 0x140],
    ["auto_ack", [1, 1, 1, 1, 1, 1, 0, 1]], ["auto_ack", 0],
    ["set_auto_ack", 1, 0], ["set_auto_ack", 1, 5], ["set_auto_ack", True, None],
    ["set_auto_ack", False, None], ["set_auto_ack", 1, 7],
    ["dynamic_payloads", True], ["dynamic_payloads", 1], ["dynamic_payloads", 0x40],
    ["dynamic_payloads", [0, 0, 0, 0, 0, 0]],
    ["set_dynamic_payloads", 1, 0], ["set_dynamic_payloads", 1, 5],
    ["set_dynamic_payloads", 0, None], ["set_dynamic_payloads", 1, None],
    ["set_dynamic_payloads", 0, -1],
    ["payload_length", 32], ["payload_length", 33], ["payload_length", 1],
    ["payload_length", -7], ["payload_length", [32, 32, 32, 32, 32, 32, 9]],
    ["set_payload_length", 24, 0], ["set_payload_length", 8, 6], ["set_payload_length", 33, 5],
    ["set_payload_length", -2, 3], ["set_payload_length", 1, 5], ["set_payload_length", 0, None],
    ["get_payload_length", 0], ["get_payload_length", 5],
    ["get_auto_ack", 6], ["get_auto_ack", -1], ["get_dynamic_payloads", 6],
    ["get_dynamic_payloads", -1], ["address", 6], ["address", -1], ["address", 3],
    ["allow_ask_no_ack", True],
    ["interrupt_config", 1, 1, 1], ["interrupt_config", 0, 0, 0], ["interrupt_config", 1, 1, 0],
    ["open_rx_pipe", 2, "hex:d2"], ["open_rx_pipe", 5, "hex:d5d6"], ["open_rx_pipe", -1, A5],
    ["open_rx_pipe", 1, "hex:"], ["open_rx_pipe", 0, T5], ["open_rx_pipe", 1, B3],
    ["open_rx_pipe", 3, C5],
    ["close_rx_pipe", 4], ["close_rx_pipe", 6], ["close_rx_pipe", -1], ["close_rx_pipe", 5],
    ["open_tx_pipe", T5], ["open_tx_pipe", B3], ["open_tx_pipe", C5],
    ["start_carrier_wave"], ["stop_carrier_wave"], ["exit"], ["enter"],
    ["print_details", False], ["print_details", True], ["print_pipes"], ["exit_exc"],
    # argument types outside the documented forms: rejected with ValueError, nothing changes
    ["auto_ack", None], ["auto_ack", "yes"], ["dynamic_payloads", None], ["dynamic_payloads", "on"],
    ["payload_length", None], ["payload_length", "8"],
]
FULL = CORE + EXTRA
PIPE0 = [["open_rx_pipe", 0, A5], ["open_rx_pipe", 0, B3], ["open_rx_pipe", 0, "hex:"], ["close_rx_pipe", 0],
         ["open_tx_pipe", T5], ["open_tx_pipe", C5], ["open_tx_pipe", T3],
         ["set_auto_ack", 0, 0], ["set_auto_ack", 1, 0], ["listen", True], ["listen", False], ["reenter"],
         ["address_length", 3], ["address_length", 5]]

GETTER_ATTRS = ["channel", "data_rate", "pa_level", "is_lna_enabled", "crc", "address_length",
                "ard", "arc", "auto_ack", "dynamic_payloads", "payload_length", "ack",
                "allow_ask_no_ack", "power", "listen"]


def argclass(op):
    n = op[0]
    if n in ("set_auto_ack", "set_dynamic_payloads", "set_payload_length"):
        p = op[2]
        pc = "pipe-none" if p is None else ("pipe<0" if p < 0 else ("pipe>5" if p > 5 else "pipe-ok"))
        if n == "set_payload_length":
            ln = op[1]
            pc += ",len>32" if ln > 32 else (",len<1" if ln < 1 else "")
        return pc
    if n in ("get_payload_length", "get_auto_ack", "get_dynamic_payloads", "close_rx_pipe",
             "open_rx_pipe", "address"):
        p = op[1]
        return "pipe<0" if p < 0 else ("pipe>5" if p > 5 else "pipe-ok")
    return ""


def gen_cases(ctx):
    variants = [("plus", "pin")]
    if ctx.tier == "thorough":
        variants = [("plus", "pin"), ("plus", "hwcs"), ("nonplus", "pin"), ("plus", "bus")]
    # 1. bounded-exhaustive sequences over the core alphabet
    depth = 2 if ctx.tier == "quick" else 3
    i = 0
    for seq in itertools.product(range(len(CORE)), repeat=depth):
        var, flav = variants[i % len(variants)] if ctx.tier == "thorough" else variants[0]
        yield {"kind": "seq", "variant": var, "flavour": flav, "poll": bool(i & 1),
               "ops": [CORE[j] for j in seq]}
        i += 1
    # singles over the full alphabet, both poll modes, all variants
    for var, flav in [("plus", "pin"), ("nonplus", "pin"), ("plus", "hwcs"), ("plus", "bus")]:
        for op in FULL:
            for poll in (False, True):
                yield {"kind": "single", "variant": var, "flavour": flav, "poll": poll,
                       "ops": [op]}
    # 1b. histories around pipe 0 (the pipe open_tx_pipe() borrows for acknowledgements and
    # listen = True gives back): exhaustive over a small alphabet, then templates beyond that
    # depth - pipe 0 opened or not, two TX addresses in a row with auto-ack on pipe 0 changed
    # before / between / after them, then one or two role round trips
    d0 = 3 if ctx.tier == "quick" else 5
    for seq in itertools.product(range(len(PIPE0)), repeat=d0):
        yield {"kind": "pipe0", "variant": "plus", "flavour": "pin", "poll": bool(i & 1),
               "ops": [PIPE0[j] for j in seq] + [["listen", True], ["listen", False], ["listen", True]]}
        i += 1
    aa = [None, ["set_auto_ack", 0, 0], ["set_auto_ack", 1, 0], ["auto_ack", 0x3E], ["auto_ack", True]]
    for first in (None, ["open_rx_pipe", 0, A5], ["open_rx_pipe", 0, B3], ["open_rx_pipe", 0, "hex:"],
                  ["close_rx_pipe", 0]):
        for t1, t2 in ((T5, C5), (T5, T3), (T3, T5), (T5, T5), (A5, T5), (T5, A5)):
            for a0, a1, a2 in itertools.product(aa, repeat=3):
                if ctx.tier == "quick" and (aa.index(a0) + aa.index(a1) + aa.index(a2)) % 2:
                    continue
                for mid in (None, ["listen", True], ["reenter"]):
                    ops = [first, a0, ["open_tx_pipe", t1], a1, mid, ["open_tx_pipe", t2], a2,
                           ["listen", True], ["listen", False], ["open_tx_pipe", t1], ["listen", True]]
                    yield {"kind": "pipe0", "variant": ["plus", "nonplus"][i % 2], "flavour": "pin",
                           "poll": bool(i & 2), "ops": [o for o in ops if o is not None]}
                    i += 1
    # 1c. every call of the alphabet made WHILE the carrier-wave test is on, then the test is
    # stopped (and, every other time, started and stopped once more): what was set in between stays
    for k, op in enumerate(FULL):
        if op[0] in ("start_carrier_wave", "stop_carrier_wave", "enter", "exit", "exit_exc", "reenter"):
            continue
        for var in ([("plus", "pin"), ("nonplus", "pin")] if ctx.tier == "thorough" or k % 2 else [("plus", "pin")]):
            tail = [["stop_carrier_wave"]] + ([["start_carrier_wave"], ["stop_carrier_wave"]] if k % 2 else [])
            yield {"kind": "carrier", "variant": var[0], "flavour": var[1], "poll": bool(k & 2),
                   "ops": [["start_carrier_wave"], op] + tail}
            yield {"kind": "carrier", "variant": var[0], "flavour": var[1], "poll": bool(k & 2),
                   "ops": [["start_carrier_wave"], FULL[(k * 7) % len(FULL)], op] + tail + [["reenter"]]}
    # 2. random walks
    nwalk = 300 if ctx.tier == "quick" else 20000
    rng = ctx.sub_rng("walks")
    for w in range(nwalk):
        var, flav = [("plus", "pin"), ("plus", "hwcs"), ("nonplus", "pin"),
                     ("plus", "bus")][w % 4]
        ops = [FULL[rng.randrange(len(FULL))] for _ in range(40)]
        yield {"kind": "walk", "variant": var, "flavour": flav, "poll": bool(rng.getrandbits(1)),
               "ops": ops}


def _cmp_cfg(model, snap):
    exp = bytearray(model.cfg_bytes())
    act = bytearray(snap["cfg"])
    exp[0] &= model.cfg_mask
    act[0] &= model.cfg_mask
    if model.crc_dc:
        exp[0] &= ~0x08 & 0xFF
        act[0] &= ~0x08 & 0xFF
    return bytes(exp), bytes(act)


def run_case(ctx, case):
    m = repo()
    plus = case["variant"] == "plus"
    rig = Rig(seed=ctx.seed)
    try:
        radio = rig.radio("dut", plus=plus)
        obj = rig.driver(radio, flavour=case["flavour"])
        model = cfg_ref.State()
        ops_done = []
        nontrivial = False
        ok = _check_state(ctx, case, radio, obj, model, ["<ctor>"], ops_done, "ctor")
        if ok and obj.is_plus_variant != plus:
            ctx.violation("ctor/is_plus_variant", "is_plus_variant=%r on a %s chip"
                          % (obj.is_plus_variant, case["variant"]), case)
            ok = False
        if not ok:
            return
        carrier_nonplus = 0  # 1 = carrier running, 2 = stopped but not yet restored
        for op in case["ops"]:
            # documented: only `with` restores a non-plus chip after the test, so the only
            # histories judged are start -> stop -> re-entry of the `with` block
            if carrier_nonplus == 1 and op[0] != "stop_carrier_wave":
                continue
            if carrier_nonplus == 2 and op[0] not in ("reenter", "enter"):
                continue
            radio.ops.clear()
            del radio.san[:]
            alts = cfg_ref.alternatives(model, op, plus=plus)
            exc, _ = cfg_ref.apply_to_driver(obj, op)
            ops_done.append(op)
            ctx.clause("exception_compare")
            if exc is not None or any(0x20 <= c < 0x40 for c, _ in radio.ops):
                nontrivial = True
            snap = radio.snapshot()
            chosen = None
            for a_exc, a_state in alts:
                if a_exc != exc:
                    continue
                e, a = _cmp_cfg(a_state, snap)
                if e == a and a_state.ce == snap["ce"]:
                    chosen = a_state
                    break
            ctx.clause("snapshot_compare")
            ctx.clause("sanitizer_scan")
            if radio.san:
                kind, detail, _ = radio.san[0]
                ctx.violation("%s/sanitizer:%s/%s" % (op[0], kind, argclass(op)),
                              "SPI sanitizer: %s during %r (history %r)" % (detail, op, ops_done),
                              case, {"ops": [(c, d.hex()) for c, d in radio.ops[-12:]]})
                return
            if chosen is None:
                excs = sorted({str(a[0]) for a in alts})
                if exc not in [a[0] for a in alts]:
                    ctx.violation("%s/exception/%s" % (op[0], argclass(op)),
                                  "%r raised %s, reference admits %s (history %r)"
                                  % (op, exc, excs, ops_done), case)
                    return
                a_state = [a for a in alts if a[0] == exc][0][1]
                e, a = _cmp_cfg(a_state, snap)
                d = cfg_ref.diff_cfg(e, a)
                if a_state.ce != snap["ce"]:
                    d.append("CE expected %s got %s" % (a_state.ce, snap["ce"]))
                regs = ",".join(sorted({x.split()[0].rstrip("012345") for x in d}))
                ctx.violation("%s/registers:%s/%s" % (op[0], regs, argclass(op)),
                              "after %r: %s (history %r)" % (op, "; ".join(d), ops_done), case)
                return
            model = chosen
            if model.r[1] and not model.r[0] & 0x08:
                model.crc_dc = True  # EN_CRC=0 under a forcing EN_AA (A5): latching is chip-dependent
            if model.crc_dc:
                model.r[0] = (model.r[0] & ~0x08) | (radio.r[0] & 0x08)
            if op[0] == "start_carrier_wave" and not plus:
                carrier_nonplus = 1
            elif op[0] == "stop_carrier_wave" and carrier_nonplus == 1:
                carrier_nonplus = 2
            elif op[0] in ("reenter", "enter") and carrier_nonplus:
                carrier_nonplus = 0
                model.cfg_mask = 0xFF
            if case["poll"] and not carrier_nonplus:
                if not _poll_getters(ctx, case, radio, obj, model, op, ops_done):
                    return
        if carrier_nonplus == 1:
            return run_case(ctx, dict(case, ops=case["ops"] + [["stop_carrier_wave"]]))
        # final coherence probe (black-box, DESIGN 3.4a)
        if not _check_state(ctx, case, radio, obj, model, ["reenter"], ops_done, "coherence"):
            return
        if nontrivial:
            ctx.nontrivial((case["variant"], case["flavour"], case["poll"], repr(case["ops"])))
        ctx.sample({"variant": case["variant"], "flavour": case["flavour"], "poll": case["poll"],
                    "ops": case["ops"][:6], "spi_commands": radio.n_cmds})
        errs = getattr(obj._verif_spi, "errors", None)
        if errs:
            ctx.violation("spi-bus-misuse", "SPI layer misuse: %r" % errs[:3], case)
    finally:
        rig.close()


def _check_state(ctx, case, radio, obj, model, op, ops_done, what):
    if what == "coherence":
        radio.ops.clear()
        del radio.san[:]
        alts = cfg_ref.alternatives(model, op, plus=(case["variant"] == "plus"))
        cfg_ref.apply_to_driver(obj, op)
        model2 = alts[0][1]
        ctx.clause("coherence_probe")
        if radio.san:
            kind, detail, _ = radio.san[0]
            ctx.violation("coherence/sanitizer:%s" % kind,
                          "re-entering the object's `with` block wrote illegal data: %s "
                          "(history %r)" % (detail, ops_done), case)
            return False
    else:
        model2 = model
        ctx.clause("snapshot_compare")
    snap = radio.snapshot()
    e, a = _cmp_cfg(model2, snap)
    if e != a or model2.ce != snap["ce"]:
        d = cfg_ref.diff_cfg(e, a)
        regs = ",".join(sorted({x.split()[0].rstrip("012345") for x in d}))
        ctx.violation("%s/registers:%s" % (what, regs),
                      "%s: %s (history %r)" % (what, "; ".join(d), ops_done), case)
        return False
    return True


def _poll_getters(ctx, case, radio, obj, model, op, ops_done):
    exp = model.getters()
    radio.ops.clear()
    for name in GETTER_ATTRS:
        got = getattr(obj, name)
        ctx.clause("getter_compare")
        if got != exp[name]:
            ctx.violation("getter:%s" % name, "%s returned %r, radio holds %r after %r "
                          "(history %r)" % (name, got, exp[name], op, ops_done), case)
            return False
    got = tuple(obj.get_auto_retries())
    if got != exp["get_auto_retries"]:
        ctx.violation("getter:get_auto_retries", "%r vs %r after %r" % (got, exp["get_auto_retries"], ops_done), case)
        return False
    for p in range(6):
        for fn in ("get_auto_ack", "get_dynamic_payloads", "get_payload_length"):
            got = getattr(obj, fn)(p)
            ctx.clause("getter_compare")
            if got != exp["%s:%d" % (fn, p)]:
                ctx.violation("getter:%s" % fn, "%s(%d) returned %r, radio holds %r "
                              "(history %r)" % (fn, p, got, exp["%s:%d" % (fn, p)], ops_done),
                              case)
                return False
    for i in range(-1, 6):
        got = bytes(obj.address(i))
        ctx.clause("getter_compare")
        if got != exp["address:%d" % i]:
            ctx.violation("getter:address", "address(%d) returned %s, radio holds %s "
                          "(history %r)" % (i, got.hex(), exp["address:%d" % i].hex(),
                                            ops_done), case)
            return False
    writes = [(c, d) for c, d in radio.ops if 0x20 <= c < 0x40 or c in (0xE1, 0xE2, 0xA0, 0xB0)
              or 0xA8 <= c <= 0xAF]
    if writes:
        ctx.violation("getter-writes", "a getter issued write command 0x%02X %s (history %r)"
                      % (writes[0][0], writes[0][1].hex(), ops_done), case)
        return False
    snap = radio.snapshot()
    e, a = _cmp_cfg(model, snap)
    if e != a:
        ctx.violation("getter-changes-registers", "; ".join(cfg_ref.diff_cfg(e, a)), case)
        return False
    return True
