"""C09 - `with` restores an object's complete radio configuration.  DESIGN §4/C09."""
from refmodels import cfg_ref
from vsim import world as W
from vsim.radio import Phantom
from vsim.rig import Rig, repo

PROP = "C09"
RULE = ("2-3 driver objects of any mix of RF24, FakeBLE, RF24Network, RF24NetworkRoutingOnly, "
        "RF24Mesh(master) and RF24MeshNoMaster constructed on ONE simulated radio; a seeded "
        "interleaving of `with` blocks, each running 0..8 configuration calls the class "
        "exposes; pure observation: the 38 configuration bytes right after __enter__ must equal "
        "the bytes at the end of the same object's previous block (PWR_UP masked; the state "
        "after the constructor is the first established state), and PWR_UP=0 and CE low after "
        "every __exit__. Non-trivial: a re-entry was compared after another object had changed "
        "at least one register; distinct = distinct (class mix, block order, calls).")
RULE += (" Later rounds added: a focused pipe/address alphabet, nested with-blocks, print_details()/print_pipes(), carrier-wave tests with a reader in between (plus chips), network objects changing their address bytes in place (clause address_bytes_private), blocks left by exceptions of several classes (OSError family included), two objects configured from one shared list of static lengths.")
REQUIRED = {"reentry_compare": 2000, "exit_state": 2000, "foreign_change_seen": 500}
BUDGET = {"quick": 480, "thorough": 900}

CLASSES = ["RF24", "FakeBLE", "RF24Network", "RF24NetworkRoutingOnly", "RF24Mesh", "RF24MeshNoMaster"]

RF24_OPS = [o for o in __import__("checks.c03", fromlist=["FULL"]).FULL
            if o[0] not in ("enter", "exit", "exit_exc", "reenter", "start_carrier_wave", "stop_carrier_wave",
                            "get_payload_length", "get_auto_ack", "get_dynamic_payloads", "address")]
BLE_OPS = [["channel", 2], ["channel", 26], ["channel", 80], ["channel", 50], ["pa_level", -12],
           ["pa_level", -18], ["payload_length", 20], ["payload_length", 32],
           ["interrupt_config", 0, 1, 1], ["interrupt_config", 1, 1, 1], ["power", True],
           ["listen", True], ["listen", False], ["hop_channel"], ["name", "hex:6e5246"],
           ["show_pa_level", True], ["arc", 3], ["ard", 500], ["set_auto_retries", 250, 0],
           ["allow_ask_no_ack", True], ["data_rate", 2], ["crc", 2], ["auto_ack", True],
           ["open_tx_pipe", "hex:0102030405"], ["address_length", 5], ["dynamic_payloads", True],
           ["ack", True], ["open_rx_pipe", 1, "hex:0102030405"], ["close_rx_pipe", 0],
           ["set_payload_length", 12, 0], ["set_auto_ack", 1, 1], ["set_dynamic_payloads", 1, 1],
           ["set_auto_ack", 1, 3], ["set_dynamic_payloads", 1, 2], ["set_auto_ack", 0, 0], ["set_auto_ack", 1, None]]
NET_OPS = [["channel", 90], ["channel", 76], ["channel", 3], ["set_dynamic_payloads", False, 2],
           ["set_dynamic_payloads", True, None], ["listen", True], ["listen", False],
           ["pa_level", -6], ["pa_level", 0], ["data_rate", 2], ["data_rate", 250],
           ["data_rate", 1], ["crc", 1], ["crc", 2], ["set_auto_retries", 750, 4],
           ["set_auto_retries", 2000, 15], ["interrupt_config", 1, 0, 0],
           ["interrupt_config", 1, 1, 1], ["power", True], ["power", False],
           ["node_address", 0o1], ["node_address", 0o23], ["node_address", 0],
           ["multicast_level", 2], ["multicast_level", 0], ["net_write"], ["flush_rx"],
           ["flush_tx"]]


FOCUS = [["open_rx_pipe", 0, "hex:3141424344"], ["open_rx_pipe", 0, "hex:c1c2c3"], ["open_rx_pipe", 0, "hex:e1f0f0f0f0"],
         ["open_rx_pipe", 0, "hex:77"], ["open_rx_pipe", 1, "hex:a1a2a3a4a5"], ["open_rx_pipe", 1, "hex:b1b2"],
         ["open_rx_pipe", 3, "hex:d3"], ["close_rx_pipe", 0], ["close_rx_pipe", 1], ["open_tx_pipe", "hex:3141424344"],
         ["open_tx_pipe", "hex:77c2c3"], ["open_tx_pipe", "hex:e1f0f0f0f0"], ["open_tx_pipe", "hex:c1"],
         ["listen", True], ["listen", True], ["listen", False], ["address_length", 3], ["address_length", 4],
         ["address_length", 5], ["set_auto_ack", 0, 0], ["set_auto_ack", 1, 0], ["auto_ack", 0x3E], ["auto_ack", 0x3F],
         ["set_auto_ack", 1, 2], ["set_dynamic_payloads", 1, 1], ["set_dynamic_payloads", 1, 3], ["data_rate", 3],
         ["data_rate", 2], ["data_rate", 250], ["pa_level", -12], ["channel", 7]]


CW_READERS = [["getattr", "pa_level"], ["getattr", "data_rate"], ["getattr", "is_lna_enabled"], ["getattr", "channel"],
              ["print_details", False], ["getattr", "crc"], ["getattr", "power"]]


def ops_of(cls, focus=False):
    if cls == "RF24":
        return FOCUS if focus else RF24_OPS
    if cls == "FakeBLE":
        return BLE_OPS
    return NET_OPS


def gen_cases(ctx):
    rng = ctx.sub_rng("c09")
    rng2 = ctx.sub_rng("c09b")  # later additions draw from their own stream
    n = 5000 if ctx.tier == "quick" else 200000
    for i in range(n):
        k = rng.choice([2, 2, 3])
        classes = [rng.choice(CLASSES) for _ in range(k)]
        if i < 36:
            classes = [CLASSES[i % 6], CLASSES[(i // 6) % 6]]
            k = 2
        blocks = []
        carrier = False
        plus = "FakeBLE" in classes or rng.random() < 0.7
        for _ in range(rng.randrange(3, 9)):
            who = rng.randrange(k)
            pool = ops_of(classes[who], focus=(i % 2 == 1))
            blk = [who, [pool[rng.randrange(len(pool))] for _ in range(rng.randrange(0, 9))]]
            if rng.random() < 0.15:
                # a nested block: at the end of this object's block another object's block runs
                # (`with a: ...; with b: ...`), then this one is left
                who2 = rng.choice([x for x in range(k) if x != who])
                pool2 = ops_of(classes[who2], focus=(i % 2 == 1))
                blk.append([who2, [pool2[rng.randrange(len(pool2))] for _ in range(rng.randrange(0, 5))]])
            if classes[who] == "RF24" and rng2.random() < 0.12:
                # a carrier-wave test inside the block, with a reader in between (readers refresh the
                # driver's cached view from the registers): started, looked at, stopped
                at = rng2.randrange(len(blk[1]) + 1)
                blk[1][at:at] = [["start_carrier_wave"], rng2.choice(CW_READERS), ["stop_carrier_wave"]]
                carrier = True
            elif classes[who] not in ("RF24", "FakeBLE") and rng2.random() < 0.2:
                # a network object changes one of its address bytes in place (the attributes are
                # mutable bytearrays) - its own business only
                blk[1].insert(rng2.randrange(len(blk[1]) + 1),
                              rng2.choice([["suffix_inplace", rng2.randrange(6), rng2.randrange(1, 255)],
                                           ["prefix_inplace", rng2.randrange(1, 255)]]))
            blocks.append(blk)
        rf_like = [x for x in range(k) if classes[x] in ("RF24", "FakeBLE")]
        if len(rf_like) >= 2 and rng2.random() < 0.5:
            # the application configures two objects from ONE list object of six static lengths; one
            # of them later changes single pipes through the function form - the other's business it is not
            a_, b_ = rng2.sample(rf_like, 2)
            blocks.append([a_, [["payload_length_shared"]]])
            blocks.append([b_, [["payload_length_shared"], ["set_payload_length", rng2.choice([32, 20, 5]), rng2.randrange(6)],
                                ["set_payload_length", rng2.choice([17, 1]), rng2.randrange(6)]]])
            blocks.append([a_, []])
            blocks.append([b_, []])
        if carrier:
            # (non-plus chips: stop_carrier_wave() leaves CONFIG's IRQ mask to the documented `with`
            # restore - C03's assumption list - so the end-of-block snapshot is not the reference there)
            plus = True
        # a non-plus chip whose FEATURE register is 0 when a driver object is constructed
        # cannot be told from a plus variant (outside A19) -> FakeBLE mixes run on plus chips
        yield {"classes": classes, "blocks": blocks, "seed": rng.getrandbits(30), "plus": plus}


def make(rig, radio, cls):
    m = repo()
    if cls == "RF24":
        return rig.driver(radio)
    if cls == "FakeBLE":
        return rig.driver(radio, cls=m["fake_ble"].FakeBLE)
    if cls == "RF24Network":
        return rig.driver(radio, cls=m["rf24_network"].RF24Network, node_address=0o2)
    if cls == "RF24NetworkRoutingOnly":
        return rig.driver(radio, cls=m["rf24_network"].RF24NetworkRoutingOnly, node_address=0o13)
    if cls == "RF24Mesh":
        return rig.driver(radio, cls=m["rf24_mesh"].RF24Mesh, node_id=0)
    if cls == "RF24MeshNoMaster":
        return rig.driver(radio, cls=m["rf24_mesh"].RF24MeshNoMaster, node_id=7)
    raise ValueError(cls)


def apply(obj, cls, op, rig):
    m = repo()
    name = op[0]
    args = [cfg_ref.unhex(a) for a in op[1:]]
    node = rig.node
    node.deadline = node.t + 2000 * W.MS
    try:
        if name == "hop_channel":
            obj.hop_channel()
        elif name == "net_write":
            if hasattr(obj, "send") and cls == "RF24Network":
                h = m["structs"].RF24NetworkHeader(0o1, "T")
                obj.send(h, b"c09")
            elif cls in ("RF24Mesh", "RF24MeshNoMaster"):
                obj.write(0o1, "T", b"c09")
        elif name in ("node_address", "multicast_level"):
            if cls in ("RF24Mesh", "RF24MeshNoMaster") and name == "node_address":
                return
            setattr(obj, name, args[0])
        elif name in ("flush_rx", "flush_tx"):
            getattr(obj, name)()
        elif name == "getattr":
            getattr(obj, args[0])
        elif name == "suffix_inplace":
            obj.address_suffix[args[0]] = args[1]
        elif name == "prefix_inplace":
            obj.address_prefix[0] = args[0]
        elif name == "payload_length_shared":
            obj.payload_length = rig.__dict__.setdefault("shared_lengths", [8, 9, 10, 11, 12, 13])
        else:
            cfg_ref.apply_to_driver(obj, op)
    except (NotImplementedError, ValueError, IndexError, AttributeError, TypeError):
        pass
    finally:
        node.deadline = None


def mask(cfg):
    b = bytearray(cfg)
    b[0] &= ~0x02 & 0xFF
    return bytes(b)


def run_case(ctx, case):
    rig = Rig(seed=case["seed"])
    try:
        radio = rig.radio("shared", plus=case["plus"])
        rig.air.promisc = Phantom()
        objs = []
        est = []
        for cls in case["classes"]:
            o = make(rig, radio, cls)
            objs.append(o)
            est.append(mask(radio.snapshot()["cfg"]))
        last_owner = len(objs) - 1
        addr_model = {w: [bytearray(o.address_prefix), bytearray(o.address_suffix)]
                      for w, o in enumerate(objs) if hasattr(o, "address_suffix")}
        crc_dc = [False] * len(objs)
        compared = 0
        for bi, blk in enumerate(case["blocks"]):
            who, ops = blk[0], blk[1]
            nested = blk[2] if len(blk) > 2 else None
            o, cls = objs[who], case["classes"][who]
            before = mask(radio.snapshot()["cfg"])
            del radio.san[:]
            o.__enter__()
            snap = radio.snapshot()
            ctx.clause("reentry_compare")
            got = mask(snap["cfg"])
            if before != est[who]:
                ctx.clause("foreign_change_seen")
                compared += 1
            if crc_dc[who]:
                # A5 (as in C03): after `crc = 0` the EN_CRC bit is a don't-care - the chip forces it
                # while any auto-ack bit is set, and whether a read-modify-write (print_details() re-loads
                # the cached view) latches the forced bit is chip-dependent
                g2, e2 = bytearray(got), bytearray(est[who])
                g2[0] &= ~0x08 & 0xFF
                e2[0] &= ~0x08 & 0xFF
                got_cmp, est_cmp = bytes(g2), bytes(e2)
            else:
                got_cmp, est_cmp = got, est[who]
            if got_cmp != est_cmp:
                d = cfg_ref.diff_cfg(est[who], got)
                regs = ",".join(sorted({x.split()[0].rstrip("012345") for x in d}))
                ctx.violation("reentry/%s:%s" % (cls, regs),
                              "entering the %s object's block (block %d): %s; classes=%r"
                              % (cls, bi, "; ".join(d), case["classes"]), case)
                return
            if radio.san:
                ctx.violation("reentry-sanitizer:%s/%s" % (radio.san[0][0], cls), radio.san[0][1], case)
                return
            for op in ops:
                apply(o, cls, op, rig)
                if op[0] == "crc":
                    crc_dc[who] = isinstance(op[1], int) and op[1] <= 0
            est[who] = mask(radio.snapshot()["cfg"])
            if nested is not None:
                o2, cls2 = objs[nested[0]], case["classes"][nested[0]]
                o2.__enter__()
                for op in nested[1]:
                    apply(o2, cls2, op, rig)
                    if op[0] == "crc":
                        crc_dc[nested[0]] = isinstance(op[1], int) and op[1] <= 0
                est[nested[0]] = mask(radio.snapshot()["cfg"])
                o2.__exit__(None, None, None)
                ctx.count("nested_blocks")
            if (bi + case["seed"]) % 4 == 0:
                # left by an exception (of the application, of the bus, of the operating system ...)
                et = [ValueError, TimeoutError, FileNotFoundError, RuntimeError, OSError, KeyboardInterrupt][(case["seed"] >> 3) % 6]
                o.__exit__(et, et("raised inside the block"), None)
            else:
                o.__exit__(None, None, None)
            # address bytes are per object: what this block changed in place shows in no other object
            for op in ops + (nested[1] if nested else []):
                if op[0] in ("suffix_inplace", "prefix_inplace"):
                    w = who if op in ops else nested[0]
                    if w not in addr_model:
                        continue
                    if op[0] == "suffix_inplace":
                        addr_model[w][1][op[1]] = op[2]
                    else:
                        addr_model[w][0][0] = op[1]
            for w, (pm, sm) in addr_model.items():
                ctx.clause("address_bytes_private")
                if bytes(objs[w].address_prefix) != bytes(pm) or bytes(objs[w].address_suffix) != bytes(sm):
                    ctx.violation("leak/address-bytes", "after block %d (object %d, %s) object %d (%s) holds prefix %s "
                                  "suffix %s; it set %s / %s itself" % (bi, who, cls, w, case["classes"][w],
                                                                         bytes(objs[w].address_prefix).hex(),
                                                                         bytes(objs[w].address_suffix).hex(),
                                                                         bytes(pm).hex(), bytes(sm).hex()), case)
                    return
            ctx.clause("exit_state")
            if radio.r[0] & 2 or radio.ce:
                ctx.violation("exit/%s" % cls, "after __exit__: PWR_UP=%d CE=%s"
                              % (bool(radio.r[0] & 2), radio.ce), case)
                return
        if compared:
            ctx.nontrivial((tuple(case["classes"]), repr(case["blocks"])))
        ctx.sample({"classes": case["classes"], "blocks": case["blocks"][:3],
                    "reentries_after_foreign_change": compared, "spi_commands": radio.n_cmds})
    finally:
        rig.close()
