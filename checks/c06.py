"""C06 - reassembly never delivers a message that was not sent in full.  DESIGN §4/C06."""
import itertools
import random

from refmodels import net_ref
from vsim.rig import Rig, repo

PROP = "C06"
RULE = ("fragment streams of real messages (2..4 fragments exhaustively, 5..7 randomly; produced "
        "by the independent TMRh20-numbering reference fragmenter) from 1..3 senders whose frame "
        "ids coincide or differ are delivered to a node under every pattern of per-fragment "
        "{drop, once, twice}, adjacent transpositions, interleavings of the senders' streams, "
        "stray MORE/LAST fragments and restarts, with the application dequeuing at every possible "
        "point; delivery goes through the real path (bytes placed in the radio's RX FIFO, then "
        "update()) or directly through FrameQueueFrag.enqueue. Every dequeued frame must equal "
        "exactly one complete sent message (bytes, type, origin) and no message may be delivered "
        "twice. Non-trivial: >=1 enqueue accepted; distinct = distinct (fragment counts, senders, "
        "id relation, delivery pattern, dequeue points).")
RULE += (" Later rounds added: tail-replay histories for types that coincide with fragment counters, queue-pressure histories, direct and multicast messages sharing origin and frame id (destination is part of a message's identity), two messages in a row under one kept header object (same origin, id, destination, type) with the first abandoned part-way and the queue filled in between; fragment streams produced by the library's own sender (real send(), frames taken from the air log) and messages that are exact multiples of 24 bytes long; kept frame objects with bytearray bodies offered again on repeats (and found unchanged afterwards); fragmentation toggled off and on between two copies of a stream (a duplicate of a still-queued message is refused: key duplicate-message-queued-twice, distinct from the recorded finding that needs a read in between).")
REQUIRED = {"dequeued_is_sent_message": 2000, "at_most_once": 2000, "histories": 5000, "histories_id_reuse": 500,
            "library_sender_streams": 300}
BUDGET = {"quick": 480, "thorough": 900}

ME = 0o2


MC = 0o100  # the multicast address: a node also reassembles multicasts of its level


_LIB_CACHE = {}


def lib_frames(sender, to, fid, typ, body):
    """the frames the LIBRARY's own sender puts on air for this message: a real RF24Network node at
    address `sender` calls send(); a promiscuous stub acknowledges every packet; the first
    transmission of each packet is recorded from the air log.  (The receiver under test must hand
    out what the application passed to send(), so a sender that numbers or slices its fragments
    wrongly is seen here too - the reference fragmenter never runs that code.)"""
    key = (sender, to, fid, typ, body)
    if key in _LIB_CACHE:
        return _LIB_CACHE[key]
    from checks.netcommon import Phantom
    from vsim import world as W
    m = repo()
    rig = Rig(seed=5)
    try:
        rig.air.promisc = Phantom()
        obj = rig.driver(rig.radio("s"), cls=m["rf24_network"].RF24Network, node_address=sender)
        air0 = len(rig.air.log)
        rig.node.deadline = rig.node.t + 3000 * W.MS
        hdr = m["structs"].RF24NetworkHeader(to, typ)
        hdr.frame_id = fid
        obj.send(hdr, body)
        rig.node.deadline = None
        frames = [bytes(p.payload) for p in rig.air.log[air0:] if p.kind == "data" and p.attempt == 0
                  and not (len(p.payload) >= 7 and p.payload[6] == net_ref.NETWORK_ACK)]
    finally:
        rig.close()
    if len(_LIB_CACHE) > 4000:
        _LIB_CACHE.clear()
    _LIB_CACHE[key] = frames
    return frames


def mk_message(sender, fid, nfrag, typ, tag, to=ME, exact=False, src="ref"):
    if nfrag == 0:  # an empty message: one header-only frame
        frames = net_ref.fragment(sender, to, fid, typ, b"")
        return {"from": sender, "id": fid, "type": typ, "msg": b"", "frames": frames, "to": to}
    n = 24 * nfrag if exact else 24 * (nfrag - 1) + 1 + (tag * 7) % 23
    body = bytes(((tag * 31 + i * 5 + sender + (to != ME)) & 0xFF) for i in range(n))
    if src == "lib" and to == ME and len(body) <= 144:  # (a node refuses longer messages: ValueError)
        frames = lib_frames(sender, to, fid, typ, body)
        # a sender that emits another number of frames: the delivery pattern addresses what exists
        frames = (frames + [None] * nfrag)[:max(nfrag, len(frames))]
    else:
        frames = net_ref.fragment(sender, to, fid, typ, body)
        assert len(frames) == nfrag
    return {"from": sender, "id": fid, "type": typ, "msg": body, "frames": frames, "to": to}


def patterns_single(nfrag):
    """per-fragment multiplicities + adjacent transpositions"""
    for mult in itertools.product((0, 1, 2), repeat=nfrag):
        seq = []
        for i, k in enumerate(mult):
            seq += [i] * k
        if not seq:
            continue
        yield seq
        for j in range(len(seq) - 1):
            if seq[j] != seq[j + 1]:
                s2 = list(seq)
                s2[j], s2[j + 1] = s2[j + 1], s2[j]
                yield s2


def gen_cases(ctx):
    rng = ctx.sub_rng("c06")
    k = 0
    # one sender, exhaustive multiplicities/transpositions, all dequeue points
    for nfrag in (2, 3, 4):
        for seq in patterns_single(nfrag):
            for deq_at in [None] + list(range(len(seq) + 1)):
                k += 1
                if ctx.tier == "quick" and nfrag == 4 and k % 3:
                    continue
                yield {"msgs": [[0o3, 10, nfrag, 65 + k % 60]], "order": [[0, i] for i in seq],
                       "deq": [deq_at] if deq_at is not None else [], "path": "radio" if k % 5 == 0 else "direct"}
    # the same message sent twice in a row (software retry), dequeue in between
    for nfrag in (2, 3, 4):
        for deq_at in range(2 * nfrag + 1):
            yield {"msgs": [[0o3, 10, nfrag, 70]], "order": [[0, i] for i in range(nfrag)] * 2,
                   "deq": [deq_at], "path": "direct"}
    # two senders, same or different ids: all interleavings of complete streams (2..3 frags)
    for na, nb in ((2, 2), (2, 3), (3, 2), (3, 3)):
        for same_id in (True, False):
            for same_origin in (False, True):
                if same_id and same_origin:
                    continue  # one sender never re-uses a frame id for another message
                pos = range(na + nb)
                for choose in itertools.combinations(pos, na):
                    order = []
                    ia = ib = 0
                    for p in pos:
                        if p in choose:
                            order.append([0, ia])
                            ia += 1
                        else:
                            order.append([1, ib])
                            ib += 1
                    for deq in ([], [na + nb - 1], [na + nb]):
                        yield {"msgs": [[0o3, 10, na, 70],
                                        [0o3 if same_origin else 0o4, 10 if same_id else 11, nb, 71]],
                               "order": order, "deq": deq, "path": "direct"}
    # tail replay: a complete stream, then its suffix from fragment j again (late repeats),
    # with and without the application reading in between; message types that coincide with
    # fragment-counter values (1..8) as well as ordinary ones
    for nfrag in (2, 3, 4, 5, 6, 7):
        for typ in (1, 2, 3, 4, 5, 6, 7, 8, 66, 127):
            for j in range(nfrag):
                for deq in ([], [nfrag], [nfrag, 2 * nfrag - j]):
                    for twice in (False, True):
                        if twice and (ctx.tier == "quick" and (nfrag + typ + j) % 3):
                            continue
                        order = [[0, i] for i in range(nfrag)] + [[0, i] for i in range(j, nfrag)] * (2 if twice else 1)
                        yield {"msgs": [[0o3, 10, nfrag, typ]], "order": order, "deq": deq,
                               "path": "radio" if (nfrag + typ + j) % 4 == 0 else "direct"}
    # queue pressure: k unread single-frame messages fill the queue (capacity 6) so that the
    # finished message is refused or only just fits; the application then reads and late repeats
    # of the tail (or the whole stream) arrive
    for nfrag in (2, 3, 4):
        for k in (4, 5, 6, 7):
            for tail_from in range(nfrag + 1):
                for pre_deq in (False, True):
                    singles = [[0o5, 40 + i, 1, 80 + i] for i in range(k)]
                    msgs = [[0o3, 10, nfrag, 70]] + singles
                    order = [[1 + i, 0] for i in range(k)] + [[0, i] for i in range(nfrag)]
                    deq = [len(order)]
                    if pre_deq:
                        deq = [k + nfrag - 1] + deq  # room appears just before the LAST fragment
                    order += [[0, i] for i in range(tail_from, nfrag)]
                    yield {"msgs": msgs, "order": order, "deq": deq,
                           "path": "radio" if (nfrag + k + tail_from) % 3 == 0 else "direct"}
    # one header object used for a direct message and a multicast: same origin, same frame id,
    # another destination - every loss pattern of the first stream's tail and the second stream's
    # head, both orders
    for na, nb in ((2, 2), (3, 2), (2, 3), (3, 3), (4, 3)):
        for first_to, second_to in ((ME, MC), (MC, ME)):
            for keep_a in range(1, na + 1):         # the first stream loses its tail after keep_a fragments
                for skip_b in range(0, nb):         # the second stream loses its first skip_b fragments
                    order = [[0, i] for i in range(keep_a)] + [[1, i] for i in range(skip_b, nb)]
                    for deq in ([], [len(order)]):
                        yield {"msgs": [[0o3, 10, na, 70, first_to], [0o3, 10, nb, 71, second_to]],
                               "order": order, "deq": deq, "path": "radio" if (na + nb + keep_a) % 3 == 0 else "direct"}
    # a kept header object: the same origin, frame id, destination and type for two messages in a
    # row.  The first is abandoned after keep_a fragments (its sender gave up), the second arrives
    # from its FIRST fragment on - complete, or with one later fragment lost or repeated - so all
    # that may be delivered is the second message.  Optionally k unread single-frame messages
    # arrive between the two (k = 6 fills the queue) and the application reads right after the
    # second message's FIRST fragment
    for na in (2, 3, 4):
        for nb in (2, 3, 4):
            for keep_a in range(1, na):
                for k in (0, 5, 6):
                    for var in range(2 * nb - 1):  # 0: complete; odd: fragment lost; even: repeated
                        fi = 1 + (var - 1) // 2
                        b = [[1, i] for i in range(nb)]
                        if var and var % 2:
                            b = [x for x in b if x[1] != fi]
                        elif var:
                            b = b[:fi + 1] + b[fi:]
                        singles = [[0o5, 40 + i, 1, 80 + i] for i in range(k)]
                        order = [[0, i] for i in range(keep_a)] + [[2 + i, 0] for i in range(k)] + b
                        first_b = keep_a + k
                        for deq in ([], [first_b + 1], [first_b], [len(order)]):
                            if not k and deq == [first_b]:
                                continue
                            yield {"msgs": [[0o3, 10, na, 70], [0o3, 10, nb, 70]] + singles, "order": order,
                                   "deq": deq, "path": "radio" if (na + nb + keep_a + var) % 4 == 0 else "direct",
                                   "fam": "id-reuse"}
    # empty (header-only) messages between / after other traffic: they carry nothing over from
    # the frame that was handled before them
    for nfrag in (1, 2, 3):
        for typ in (1, 66):
            for path in ("radio", "direct"):
                for deq in ([], [nfrag], [nfrag + 1]):
                    yield {"msgs": [[0o3, 10, nfrag, 70], [0o4, 11, 0, typ], [0o3, 12, 0, typ], [0o5, 13, 1, 9]],
                           "order": [[0, i] for i in range(nfrag)] + [[1, 0], [3, 0], [2, 0]], "deq": deq, "path": path}
    # a relaying node (multicast_relay on) passes the fragments of a multicast on to the next level
    # byte for byte - whatever its own reassembly does with them
    for nfrag in (2, 3, 4):
        for typ in (1, 7, 66, 127):
            for deq in ([], [nfrag]):
                yield {"msgs": [[0o3, 10, nfrag, typ, MC], [0o4, 11, 2, typ, MC]],
                       "order": [[0, i] for i in range(nfrag)] + [[1, 0], [1, 1]], "deq": deq, "path": "radio",
                       "relay": True}
    # a complete message pending unread, fragmentation toggled off and on (queue hand-over), then the
    # same stream again: still a duplicate of a queued frame; also toggles between / inside streams
    for nfrag in (1, 2, 3):
        for tog in range(0, 2 * nfrag + 1):
            for deq in ([], [2 * nfrag], [nfrag]):
                for path in ("direct", "radio"):
                    yield {"msgs": [[0o3, 10, nfrag, 70]], "order": [[0, i] for i in range(nfrag)] * 2, "deq": deq,
                           "path": path, "toggle_at": tog, "fam": "toggle"}
    # the library's own sender produces the fragments (real send() on a node, every packet
    # acknowledged by a stub, first transmissions taken from the air log), message lengths that are
    # exact multiples of 24 as well as ragged ones; complete / one lost / one repeated / small
    # exhaustive patterns, read at the end or after every fragment
    for nfrag in (2, 3, 4, 5, 6):
        for exact in (False, True):
            if nfrag <= 3:
                pats = list(patterns_single(nfrag))
            else:
                full = list(range(nfrag))
                pats = [full] + [full[:j] + full[j + 1:] for j in range(nfrag)] \
                    + [full[:j + 1] + full[j:] for j in range(nfrag)] \
                    + [full[:j + 1] + full[j + 2:] + full[j + 1:j + 2] for j in range(nfrag - 1)]
            for pi, seq in enumerate(pats):
                for deq in ([], list(range(len(seq) + 1))):
                    for sender, typ in ((0o12, 66), (0o3, 5), (0o2222 >> 3, 127)):
                        if (ctx.tier == "quick" and (pi + nfrag + typ) % 3) and seq != list(range(nfrag)):
                            continue
                        yield {"msgs": [[sender, 20 + nfrag, nfrag, typ]], "order": [[0, i] for i in seq], "deq": deq,
                               "path": "radio" if (pi + nfrag) % 3 == 0 else "direct", "src": "lib", "exact": exact,
                               "fam": "lib-sender"}
    # stray fragments / restarts / random
    nrand = 8000 if ctx.tier == "quick" else 400000
    rng_b = ctx.sub_rng("c06b")
    for i in range(nrand):
        ns = rng.choice([1, 2, 2, 3])
        msgs = []
        for s in range(ns):
            msgs.append([[0o3, 0o4, 0o5, 0o13][(s + rng.randrange(2) * 2) % 4 if s else rng.randrange(4)],
                         rng.choice([10, 10, 11, 12]),
                         rng.randrange(2, 8 if ctx.tier == "thorough" else 6),
                         rng.randrange(1, 9) if rng.random() < 0.25 else rng.randrange(1, 128)])
        # one sender re-uses a frame id only with another destination (a kept header object)
        seen_pairs = set()
        for mm in msgs:
            if rng.random() < 0.2:
                mm.append(MC)
            while (mm[0], mm[1], tuple(mm[4:5])) in seen_pairs:
                mm[1] += 7
            seen_pairs.add((mm[0], mm[1], tuple(mm[4:5])))
        order = []
        for s, mm in enumerate(msgs):
            for f in range(mm[2]):
                r = rng.random()
                if r < 0.15:
                    continue
                order.append([s, f])
                if r > 0.85:
                    order.append([s, f])
        # interleave randomly but keep each stream's internal order mostly intact
        rng.shuffle(order)
        order.sort(key=lambda x: (x[1] + rng.random() * 1.2))
        deq = sorted(rng.sample(range(len(order) + 1), min(len(order) + 1, rng.randrange(0, 4))))
        case = {"msgs": msgs, "order": order, "deq": deq,
                "path": "radio" if i % 4 == 0 else "direct"}
        rb = rng_b.random()
        if rb < 0.12:
            case["exact"] = True   # every message of the case is an exact multiple of 24 bytes long
        if 0.08 < rb < 0.2:
            case["src"] = "lib"    # fragments produced by the library's own sender
        yield case


class Sink:
    def __init__(self, m, path, relay=False):
        self.m = m
        self.path = path
        self.rig = None
        if path == "radio":
            self.rig = Rig(seed=1)
            self.radio = self.rig.radio("n")
            self.node = self.rig.driver(self.radio, cls=m["rf24_network"].RF24Network,
                                        node_address=ME)
            if relay:
                self.node.multicast_relay = True
        else:
            self.q = m["structs"].FrameQueueFrag()
            self.frame = m["structs"].RF24NetworkFrame()
        self.keep_objects = False
        self.kept, self.kept_raw = {}, {}

    def deliver(self, raw, key=None):
        if self.path == "radio":
            self.radio.inject_rx(3, raw)
            self.node.update()
        elif self.keep_objects and key is not None:
            # the caller keeps ONE frame object per fragment (bytearray body) and offers the very same
            # object again when that fragment is repeated; the objects must come through unchanged
            fr = self.kept.get(key)
            if fr is None:
                fr = self.m["structs"].RF24NetworkFrame()
                fr.unpack(bytearray(raw))
                fr.message = bytearray(fr.message)
                self.kept[key] = fr
                self.kept_raw[key] = bytes(raw)
            self.q.enqueue(fr)
        else:
            # like the real caller: one re-used frame object unpacked from the bytes
            self.frame.unpack(bytearray(raw))
            self.q.enqueue(self.frame)

    def toggle(self):
        """fragmentation switched off and on again: pending frames move to a new queue object (what
        was being assembled is dropped, what is queued stays queued)"""
        if self.path == "radio":
            self.node.fragmentation = False
            self.node.fragmentation = True
        else:
            S = self.m["structs"]
            self.q = S.FrameQueueFrag(S.FrameQueue(self.q))

    def dequeue_all(self):
        out = []
        q = self.node if self.path == "radio" else None
        while True:
            f = (q.read() if q is not None else self.q.dequeue())
            if f is None:
                break
            out.append((f.header.from_node, f.header.frame_id, f.header.message_type,
                        bytes(f.message), f.header.to_node))
        return out

    def close(self):
        if self.rig is not None:
            self.rig.close()


def run_case(ctx, case):
    m = repo()
    msgs = [mk_message(mm[0], mm[1], mm[2], mm[3], 3 + i, *mm[4:5], exact=case.get("exact", False),
                       src=case.get("src", "ref")) for i, mm in enumerate(case["msgs"])]
    if case.get("src") == "lib":
        ctx.clause("library_sender_streams")
    sink = Sink(m, case["path"], case.get("relay", False))
    # a third of the direct-path histories offer kept frame objects (see Sink.deliver)
    sink.keep_objects = case["path"] == "direct" and (len(case["order"]) + len(case["msgs"]) + sum(case["deq"])) % 3 == 0
    try:
        delivered = []
        for step, (mi, fi) in enumerate(case["order"]):
            if step in case["deq"]:
                delivered += sink.dequeue_all()
            if step == case.get("toggle_at"):
                sink.toggle()
            if fi >= len(msgs[mi]["frames"]) or msgs[mi]["frames"][fi] is None:
                continue  # the library's sender produced fewer frames than the message needs
            sink.deliver(msgs[mi]["frames"][fi], (mi, fi))
        if len(case["order"]) in case["deq"]:
            delivered += sink.dequeue_all()
        delivered += sink.dequeue_all()
        relay_air = list(sink.rig.air.log) if sink.rig is not None else []
        if sink.keep_objects:
            ctx.clause("kept_frame_objects_unchanged")
            for key, fr in sink.kept.items():
                if bytes(fr.pack()) != sink.kept_raw[key]:
                    ctx.violation("caller-frame-object-modified", "the frame object the caller kept for fragment %r holds %d "
                                  "message bytes after the history, %d when it was first offered; order %r"
                                  % (key, len(fr.message), len(sink.kept_raw[key]) - 8, case["order"]), case)
                    return
    finally:
        sink.close()
    ctx.clause("histories")
    if case.get("fam"):
        ctx.clause("histories_" + case["fam"].replace("-", "_"))
    if case.get("relay") and sink.rig is not None:
        ctx.clause("relayed_fragments_unaltered")
        fed = [msgs[mi]["frames"][fi] for mi, fi in case["order"]]
        onair = [bytes(p.payload) for p in relay_air if p.kind == "data"]
        if onair != fed:
            bad = next((i for i, (a, b) in enumerate(zip(onair, fed)) if a != b), min(len(onair), len(fed)))
            ctx.violation("relayed-fragment-altered", "a relaying node re-broadcast %d frames for %d multicast frames it "
                          "received; first difference at frame %d: %s vs received %s"
                          % (len(onair), len(fed), bad, onair[bad].hex() if bad < len(onair) else None,
                             fed[bad].hex() if bad < len(fed) else None), case)
            return
    sent = {}
    for mm in msgs:
        sent[(mm["from"], mm["id"], mm["type"], mm["msg"], mm["to"])] = mm
    shape = (tuple((mm[2], mm[0] == case["msgs"][0][0], mm[1] == case["msgs"][0][1]) for mm in case["msgs"]),
             tuple(tuple(x) for x in case["order"]), tuple(case["deq"]), case["path"])
    seen = {}
    for d in delivered:
        ctx.clause("dequeued_is_sent_message")
        if d not in sent:
            # classify the mechanism
            frm, fid, typ, body, _to = d
            cand = [mm for mm in msgs if mm["from"] == frm or mm["id"] == fid]
            key = "spliced-or-truncated"
            for mm in msgs:
                if body != mm["msg"] and len(body) < len(mm["msg"]) and body[:24] == mm["msg"][:24] \
                        and mm["msg"].endswith(body[24 * ((len(body) - 1) // 24):]) and frm == mm["from"]:
                    key = "truncated/last-fragment-not-sequence-checked"
            if key == "spliced-or-truncated":
                others = [mm for mm in msgs if mm["from"] != frm]
                if any(mm["msg"][i:i + 24] and mm["msg"][i:i + 24] in body
                       for mm in others for i in range(0, len(mm["msg"]), 24)):
                    key = "spliced/fragment-of-other-origin"
                elif any(body.startswith(mm["msg"]) and len(body) > len(mm["msg"]) for mm in msgs):
                    key = "spliced/fragment-appended-after-delivery"
            ctx.violation(key, "application dequeued a %d-byte message type %d from %s id %d that is "
                          "not one of the complete sent messages %r; delivery order %r dequeue at %r"
                          % (len(body), typ, oct(frm), fid,
                             [(oct(mm["from"]), mm["id"], len(mm["msg"])) for mm in msgs],
                             case["order"], case["deq"]), case)
            return
        seen[d] = seen.get(d, 0) + 1
    for d, n in seen.items():
        ctx.clause("at_most_once")
        # how often was the complete stream of this message delivered (in order, contiguous or not)?
        mm = sent[d]
        mi = msgs.index(mm)
        copies = min(sum(1 for x in case["order"] if x == [mi, fi]) for fi in range(len(mm["frames"])))
        if n > 1 and n > copies:
            ctx.violation("delivered-more-often-than-sent", "message (%s,id %d) dequeued %d times "
                          "but its fragments arrived at most %d times; order %r dequeue at %r"
                          % (oct(d[0]), d[1], n, copies, case["order"], case["deq"]), case)
            return
        last_fi = len(mm["frames"]) - 1
        ends = [i for i, x in enumerate(case["order"]) if x == [mi, last_fi]]
        read_between = any(ends[0] < d <= ends[-1] for d in case["deq"]) if len(ends) >= 2 else True
        if n > 1 and not read_between:
            # the first copy was still in the queue when the stream completed again: the queue's
            # duplicate suppression has to refuse it (this is NOT the recorded finding, which needs
            # the application to have read the first copy in between)
            ctx.violation("duplicate-message-queued-twice", "message (%s,id %d) was handed to the application %d times although "
                          "nothing was read between its completions; order %r dequeue at %r toggle at %r"
                          % (oct(d[0]), d[1], n, case["order"], case["deq"], case.get("toggle_at")), case)
            return
        if n > 1:
            ctx.violation("duplicate-message-delivered-after-dequeue",
                          "message (%s,id %d) whose complete fragment stream arrived %d times was "
                          "handed to the application %d times; order %r dequeue at %r"
                          % (oct(d[0]), d[1], copies, n, case["order"], case["deq"]), case)
            return
    if delivered or True:
        ctx.nontrivial(shape)
    ctx.sample({"msgs": case["msgs"], "order": case["order"][:10], "deq": case["deq"],
                "path": case["path"], "delivered": len(delivered)})
