"""C12 - the frame queue is a bounded, duplicate-free FIFO of private copies. DESIGN §4/C12."""
import copy

from refmodels import net_ref
from refmodels.net_ref import RefQueue
from vsim.rig import Rig, repo

PROP = "C12"
RULE = ("operation histories over {enqueue fresh | duplicate of a stored frame | same origin+id but other type | the caller's "
        "last frame object mutated and re-used, dequeue, peek, len, max_queue_size := lower | "
        "higher, fragmentation toggle (move constructor)}: exhaustive to depth 6 (quick) / 8 "
        "(thorough) by depth-first search with cloned states, plus random depth-200 walks on a "
        "real network node whose `fragmentation` attribute is toggled; every return value is "
        "compared with a reference queue and after every step a clone of the real queue is "
        "drained and compared frame by frame. Non-trivial: at least one enqueue was accepted; "
        "distinct = distinct operation histories (frame ids abstracted).")
RULE += (" Later rounds added: long (25..144 byte) messages and random walks over a wider alphabet (frame ids differing in high bits only, messages arriving as fragments, lone FIRST fragments), the frame accepted last arriving again - while still queued and after it was read (all histories of depth 7/8 over a 6-operation alphabet, and in the walks).")
REQUIRED = {"enqueue_return": 50000, "dequeue_compare": 10000, "drain_compare": 50000,
            "bound_after_accept": 10000, "toggle_preserves": 5000, "node_toggle": 50, "walk_steps": 20000}
BUDGET = {"quick": 480, "thorough": 900}
EXHAUSTIVE = {"quick": "all 10^6 operation histories of depth 6", "thorough": "all 10^8 histories of depth 8"}

OPS = ["e_fresh", "e_dup", "e_twin", "e_reuse", "deq", "peek", "len", "max_lo", "max_hi", "toggle"]
# used by the random walks only (the exhaustive search keeps the 10-operation alphabet):
#  e_near    - same origin and type as a stored frame, frame id differing by a multiple of 256 or in
#              one high bit: NOT a duplicate
#  e_fragmsg - a 2-fragment message arriving as FIRST + LAST (only a FrameQueueFrag reassembles)
#  e_first   - a FIRST fragment alone (a message that never completes; restarts the assembly)
#  e_again   - the frame that was accepted last arrives once more (same origin, frame id and type:
#              a late re-transmission, a kept header used again) - a duplicate exactly while the
#              first copy is still queued, a new frame once it has been read
OPS_WALK = OPS + ["e_near", "e_fragmsg", "e_first", "e_again"]
OPS_AGAIN = ["e_fresh", "e_again", "deq", "e_dup", "toggle", "e_twin"]
WILD = None  # reserved byte of a reassembled frame: not compared


class St:
    __slots__ = ("real", "ref", "ctr", "last_obj", "frag", "last_acc")


def _mk(m, frm, to, fid, typ, res, msg):
    h = m["structs"].RF24NetworkHeader(to, typ)
    h.from_node = frm
    h.frame_id = fid
    h.reserved = res
    return m["structs"].RF24NetworkFrame(h, msg)


def _tuple(f):
    return (f.header.from_node, f.header.frame_id, f.header.message_type, f.header.to_node,
            f.header.reserved, bytes(f.message))


class StepTimeout(BaseException):
    pass


def _alarm(signum, frame):
    raise StepTimeout()


def step(ctx, m, st, op, hist):
    """one operation under a CPU-time guard: the queue code is pure Python (no SPI, no clock), so
    a loop that never ends inside it (a dequeue() that does not shrink the queue, used by the move
    constructor) can only be stopped from outside. The guard counts the CPU time this process has
    consumed (ITIMER_VIRTUAL), not wall time: on a loaded machine a starved shard is not a verdict
    (a wall-clock guard raised this alarm falsely during a seed sweep run beside other checks)"""
    import signal
    signal.signal(signal.SIGVTALRM, _alarm)
    signal.setitimer(signal.ITIMER_VIRTUAL, 10.0)
    try:
        return _step(ctx, m, st, op, hist)
    except StepTimeout:
        ctx.violation("operation-does-not-return", "operation %s did not return within 10 s of CPU time "
                      "(history %r)" % (op, hist + [op]), {"ops": hist + [op]})
        return False
    finally:
        signal.setitimer(signal.ITIMER_VIRTUAL, 0)


def _same(got, exp):
    """tuple comparison in which a reference reserved byte of WILD matches anything"""
    if got is None or exp is None or not isinstance(got, tuple) or not isinstance(exp, tuple):
        return got == exp
    return len(got) == len(exp) and all(e is WILD and i == 4 or g == e for i, (g, e) in enumerate(zip(got, exp)))


def _step(ctx, m, st, op, hist):
    """apply op to real+ref, compare; returns False after a violation"""
    S = m["structs"]
    if op in ("e_fresh", "e_reuse"):
        st.ctr += 1
        c = st.ctr
        # 0..24 bytes mostly; every 7th frame is a long (reassembled / looped-back) message
        ln = (c % 25) if c % 7 != 3 else 25 + (c * 13) % 120
        fields = (0o1 + (c % 5), 0o2, 1000 + c, 1 + (c % 120), c % 256, bytes([c % 256]) * ln)
        if c % 2:  # every other frame carries a bytearray the caller later mutates IN PLACE
            fields = fields[:5] + (bytearray(fields[5]),)
        if op == "e_fresh" or st.last_obj is None:
            f = _mk(m, *fields)
        else:
            f = st.last_obj  # the caller re-uses (mutates) the object it passed in before
            f.header.from_node, f.header.to_node, f.header.frame_id = fields[0], fields[1], fields[2]
            f.header.message_type, f.header.reserved = fields[3], fields[4]
            f.message = fields[5]
        st.last_obj = f
        exp = st.ref.enqueue(fields[0], fields[2], fields[3], fields[1], fields[4], bytes(fields[5]))
        got = st.real.enqueue(f)
        ctx.clause("enqueue_return")
    elif op == "e_dup":
        if not st.ref.q:
            return True
        src = st.ref.q[len(st.ref.q) // 2]
        st.ctr += 1
        f = _mk(m, src[0], 0o3, src[1], src[2], 7, b"duplicate%d" % st.ctr)
        exp = st.ref.enqueue(src[0], src[1], src[2], 0o3, 7, f.message)
        got = st.real.enqueue(f)
        ctx.clause("enqueue_return")
    elif op == "e_again":
        if st.last_acc is None:
            return True
        src = st.last_acc
        st.ctr += 1
        f = _mk(m, src[0], 0o3, src[1], src[2], 5, b"again%d" % st.ctr)
        exp = st.ref.enqueue(src[0], src[1], src[2], 0o3, 5, f.message)
        got = st.real.enqueue(f)
        ctx.clause("enqueue_return")
        ctx.clause("last_accepted_frame_again")
    elif op == "e_twin":
        # same origin and frame id as a stored frame but another type: NOT a duplicate
        if not st.ref.q:
            return True
        src = st.ref.q[-1]
        st.ctr += 1
        typ = 1 + (src[2] % 120)
        f = _mk(m, src[0], 0o3, src[1], typ, 9, b"twin%d" % st.ctr)
        exp = st.ref.enqueue(src[0], src[1], typ, 0o3, 9, f.message)
        got = st.real.enqueue(f)
        ctx.clause("enqueue_return")
    elif op == "e_near":
        if not st.ref.q:
            return True
        src = st.ref.q[0]
        st.ctr += 1
        fid = [(src[1] + 256) & 0xFFFF, src[1] ^ 0x400, (src[1] + 0x1000) & 0xFFFF, src[1] ^ 0x8000][st.ctr % 4]
        f = _mk(m, src[0], 0o3, fid, src[2], 3, b"near%d" % st.ctr)
        exp = st.ref.enqueue(src[0], fid, src[2], 0o3, 3, f.message)
        got = st.real.enqueue(f)
        ctx.clause("enqueue_return")
    elif op in ("e_fragmsg", "e_first"):
        if not st.frag:
            return True
        st.ctr += 1
        c = st.ctr
        frm, fid, typ = 0o1 + c % 5, 3000 + c, 1 + c % 120
        body = bytes([(c * 7 + i) % 256 for i in range(25 + c % 20)])
        frames = net_ref.fragment(frm, 0o2, fid, typ, body)
        got = None
        for raw in (frames if op == "e_fragmsg" else frames[:1]):
            fr = S.RF24NetworkFrame()
            fr.unpack(bytearray(raw))
            got = st.real.enqueue(fr)
        if op == "e_first":
            exp = got  # nothing is queued by a FIRST fragment; its return value is not specified
        else:
            exp = st.ref.enqueue(frm, fid, typ, 0o2, WILD, body)
        ctx.clause("enqueue_return")
    elif op == "deq":
        exp = st.ref.dequeue()
        g = st.real.dequeue()
        got = _tuple(g) if g is not None else None
        ctx.clause("dequeue_compare")
    elif op == "peek":
        exp = st.ref.peek()
        g = st.real.peek()
        got = _tuple(g) if g is not None else None
        ctx.clause("dequeue_compare")
    elif op == "len":
        exp, got = len(st.ref), len(st.real)
    elif op in ("max_lo", "max_hi"):
        v = 2 if op == "max_lo" else 4
        st.real.max_queue_size = v
        st.ref.max = v
        exp = got = None
    elif op == "toggle":
        before = (len(st.real), st.real.max_queue_size)
        st.real = (S.FrameQueue if st.frag else S.FrameQueueFrag)(st.real)
        st.frag = not st.frag
        exp, got = before, (len(st.real), st.real.max_queue_size)
        ctx.clause("toggle_preserves")
    if not _same(got, exp):
        ctx.violation("%s-mismatch" % op.split("_")[0] if op.startswith("e_") is False else
                      "enqueue-return/%s" % op,
                      "%s returned %r, reference %r (max=%d len=%d; history %r)"
                      % (op, got, exp, st.ref.max, len(st.ref), hist + [op]), {"ops": hist + [op]})
        return False
    if op in ("e_fresh", "e_reuse") and got is True:
        st.last_acc = (fields[0], fields[2], fields[3])
    if op.startswith("e_") and got and op != "e_first":
        ctx.clause("bound_after_accept")
        if len(st.real) > st.real.max_queue_size:
            ctx.violation("over-capacity", "enqueue accepted: %d frames with max_queue_size=%d "
                          "(history %r)" % (len(st.real), st.real.max_queue_size, hist + [op]),
                          {"ops": hist + [op]})
            return False
    # mutate the caller's object afterwards: the stored copy must be unaffected
    if op in ("e_fresh", "e_reuse") and st.last_obj is not None:
        if isinstance(st.last_obj.message, bytearray):
            st.last_obj.message[:] = b"mutated-in-place"  # same object, new content
        st.last_obj.message = bytearray(b"mutated-by-caller")
        st.last_obj.header.reserved = 0xEE
    # drain a clone and compare everything
    ctx.clause("drain_compare")
    clone = copy.deepcopy(st.real)
    got_all = []
    for _ in range(len(st.ref.q) + 8):  # bounded: a queue whose length never reaches 0 must not hang the monitor
        if not len(clone):
            break
        g = clone.dequeue()
        if g is None:
            break
        got_all.append(_tuple(g))
    else:
        ctx.violation("drain-does-not-end", "draining a copy of the queue took more than %d dequeues with %d frames in "
                      "the reference (history %r)" % (len(st.ref.q) + 8, len(st.ref.q), hist + [op]), {"ops": hist + [op]})
        return False
    if len(got_all) != len(st.ref.q) or not all(_same(g, e) for g, e in zip(got_all, st.ref.q)):
        ctx.violation("content-mismatch", "queue content %r differs from reference %r "
                      "(history %r)" % (got_all[:3], st.ref.q[:3], hist + [op]),
                      {"ops": hist + [op]})
        return False
    return True


def clone_state(st):
    n = St()
    n.real = copy.deepcopy(st.real)
    n.ref = RefQueue(st.ref.max)
    n.ref.q = list(st.ref.q)
    n.ctr = st.ctr
    n.last_obj = copy.deepcopy(st.last_obj)
    n.frag = st.frag
    n.last_acc = st.last_acc
    return n


def fresh(m, frag):
    st = St()
    st.real = m["structs"].FrameQueueFrag() if frag else m["structs"].FrameQueue()
    st.ref = RefQueue(6)
    st.ctr = 0
    st.last_obj = None
    st.frag = frag
    st.last_acc = None
    return st


def dfs(ctx, m, st, hist, depth, accepted, ops=None):
    if ops is not None:
        if depth == 0:
            ctx.evaluations += 1
            ctx.nontrivial(("again",) + tuple(hist))
            return True
        for op in ops:
            n = clone_state(st)
            if not step(ctx, m, n, op, hist):
                return False
            if not dfs(ctx, m, n, hist + [op], depth - 1, True, ops):
                return False
        return True
    if depth == 0:
        ctx.evaluations += 1
        if accepted:
            ctx.nontrivial(tuple(hist))
        return True
    for op in OPS:
        n = clone_state(st)
        if not step(ctx, m, n, op, hist):
            return False
        acc = accepted or (op.startswith("e_") and len(n.ref) > len(st.ref))
        if not dfs(ctx, m, n, hist + [op], depth - 1, acc):
            return False
    return True


def run_shard(ctx):
    m = repo()
    depth = 6 if ctx.tier == "quick" else 8
    roots = [(a, b) for a in OPS for b in OPS]
    for k, (a, b) in enumerate(roots):
        if k % ctx.nshards != ctx.shard:
            continue
        st = fresh(m, frag=bool(k & 1))
        # pre-fill so that bounds are reachable within the depth
        for _ in range(3 if k % 3 == 0 else 0):
            if not step(ctx, m, st, "e_fresh", []):
                return
        ok = step(ctx, m, st, a, []) and step(ctx, m, st, b, [a])
        if ok:
            dfs(ctx, m, st, [a, b], depth - 2, len(st.ref) > 0)
        if ctx.vcount:
            break
    # all histories of depth 6 (quick) / 7 (thorough) over the small alphabet around "the frame accepted
    # last arrives again" (sharded on the first two operations)
    for k, (a, b) in enumerate([(a, b) for a in OPS_AGAIN for b in OPS_AGAIN]):
        if k % ctx.nshards != ctx.shard or ctx.vcount:
            continue
        st = fresh(m, frag=bool(k & 1))
        if step(ctx, m, st, "e_fresh", []) and step(ctx, m, st, a, ["e_fresh"]) and step(ctx, m, st, b, ["e_fresh", a]):
            dfs(ctx, m, st, ["e_fresh", a, b], 4 if ctx.tier == "quick" else 5, True, OPS_AGAIN)
    _queue_walks(ctx, m)
    _node_walks(ctx, m)
    if ctx.shard == 0:
        ctx.sample({"history": ["e_fresh", "e_fresh", "max_lo", "e_fresh", "toggle", "deq"],
                    "note": "every history of the stated depth over the 9-op alphabet is run"})


def _queue_walks(ctx, m):
    """random walks over the wider alphabet (near-miss ids, messages arriving as fragments)"""
    rng = ctx.sub_rng("c12walk", ctx.shard)
    for w in range(60 if ctx.tier == "quick" else 3000):
        st = fresh(m, frag=bool(w % 3))
        hist = []
        for _ in range(50):
            op = rng.choice(OPS_WALK)
            if not step(ctx, m, st, op, hist):
                return
            hist.append(op)
            ctx.clause("walk_steps")
        ctx.evaluations += 1
        ctx.nontrivial(("walk", ctx.shard, w))


def _node_walks(ctx, m):
    """random walks on a real network node's queue with `fragmentation` toggled"""
    rng = ctx.sub_rng("c12node", ctx.shard)
    nwalk = 6 if ctx.tier == "quick" else 200
    for w in range(nwalk):
        rig = Rig(seed=w)
        try:
            node = rig.driver(rig.radio("n"), cls=m["rf24_network"].RF24Network, node_address=0o1)
            ref = RefQueue(node.queue.max_queue_size)
            ctr = 0
            hist = []
            import signal
            signal.signal(signal.SIGVTALRM, _alarm)
            for _ in range(200):
                signal.setitimer(signal.ITIMER_VIRTUAL, 10.0)  # CPU time, not wall time; cleared in the finally below
                r = rng.random()
                if r < 0.45:
                    ctr += 1
                    fid = (ctr * 257 + (ctr % 3) * 0x1000) & 0xFFFF  # ids beyond one byte, equal low bytes recur
                    fields = (0o2 + ctr % 4, 0o1, fid, 1 + ctr % 100, ctr % 256, bytes([ctr % 251]) * (ctr % 24))
                    f = _mk(m, *fields)
                    exp = ref.enqueue(fields[0], fields[2], fields[3], fields[1], fields[4], fields[5])
                    got = node.queue.enqueue(f)
                    hist.append("enq")
                    if got != exp:
                        ctx.violation("enqueue-return/node", "enqueue on node queue returned %r, "
                                      "reference %r (len %d max %d)" % (got, exp, len(ref), ref.max),
                                      {"ops": hist[-20:]})
                        return
                elif r < 0.75:
                    exp = ref.dequeue()
                    g = node.read()
                    got = _tuple(g) if g is not None else None
                    hist.append("read")
                    if got != exp:
                        ctx.violation("dequeue-mismatch/node", "read() returned %r, reference %r"
                                      % (got, exp), {"ops": hist[-20:]})
                        return
                elif r < 0.85:
                    v = rng.randrange(0, 9)
                    node.queue.max_queue_size = v
                    ref.max = v
                    hist.append("max=%d" % v)
                else:
                    ctx.clause("node_toggle")
                    node.fragmentation = not node.fragmentation
                    hist.append("toggle")
                    if len(node.queue) != len(ref) or node.queue.max_queue_size != ref.max:
                        ctx.violation("toggle-mismatch/node", "after fragmentation toggle: len %d "
                                      "(ref %d) max %d (ref %d)" % (len(node.queue), len(ref),
                                                                    node.queue.max_queue_size, ref.max),
                                      {"ops": hist[-20:]})
                        return
                if node.available() != bool(len(ref)):
                    ctx.violation("available-mismatch/node", "available() %r with %d frames"
                                  % (node.available(), len(ref)), {"ops": hist[-20:]})
                    return
            ctx.evaluations += 1
            ctx.nontrivial(("nodewalk", ctx.shard, w))
        except StepTimeout:
            ctx.violation("operation-does-not-return/node", "a queue operation on the node did not return within 10 s "
                          "of CPU time (last operations %r)" % hist[-6:], {"ops": hist[-20:]})
            return
        finally:
            import signal as _sg
            _sg.setitimer(_sg.ITIMER_VIRTUAL, 0)
            rig.close()


def run_case(ctx, case):
    """replay: re-run one history from a fresh queue"""
    m = repo()
    st = fresh(m, frag=False)
    hist = []
    for op in case["ops"]:
        if op not in OPS_WALK:
            return
        if not step(ctx, m, st, op, hist):
            return
        hist.append(op)
