"""C04 - tree routing connects all 781 addresses; pipe addresses never collide. DESIGN §4/C04.

A complete 781-node network of real RF24Network objects is built on 781 simulated radios
sharing one medium (one MCU thread drives them one at a time).  Ground truth is what the
radios do: the listening table is read from their registers, and every observed hop is a
real transmission whose receivers are whichever radios accept it."""
import random

from refmodels import net_ref
from vsim import world as W
from vsim.rig import Rig, repo
from checks import netcommon as N


class _Shim:
    def __init__(self, obj, radio):
        self.obj, self.radio = obj, radio

PROP = "C04"
RULE = ("781 real RF24Network nodes (every valid address of levels 0..4) on one simulated medium, "
        "for the default and for seeded random distinct address_prefix/address_suffix bytes, with "
        "allow_multicast on and off. (1) listening table read from the radios: all 781x6 (node, "
        "pipe) entries - uniqueness over the address space, level-shared pipe-0 addresses; (2) "
        "observed next hops: for (node, destination) the node writes as origin and forwards an "
        "injected frame as router; the FIRST transmission must be accepted by exactly one radio, "
        "the reference next hop (parent or direct child) - quick: 48 destinations per node chosen "
        "by class, thorough: all 781x780 pairs, both roles; observed hops are composed into paths "
        "(<= 8 hops, equal to the tree path); (3) multicasts from sampled nodes to levels 0..4/None "
        "must be accepted by exactly the nodes of that level on pipe 0. Non-trivial: a "
        "transmission was observed; distinct = (byte set, multicast flag, node, destination "
        "class, role).")
RULE += (" Later rounds added: per-node histories (interleaved unicasts/multicasts, hops that fail outright) judged like first transmissions incl. the identity of the frame on air; nodes re-addressed at run time compared with fresh ones; partial/extreme address byte customisations; one node customising its bytes in place must not affect the others. Relaying nodes of every level: the re-broadcast is accepted by exactly the next level (by nobody from level 4). Acknowledged-type sends to far nodes inside the histories with the listening addresses re-checked; multicasting switched off and on inside the re-addressing histories.")
REQUIRED = {"listening_entries": 4000, "next_hop_origin": 1000, "next_hop_router": 1000,
            "multicast_level": 50, "path_composition": 500, "history_independent": 300,
            "readdressed_like_fresh": 30, "inplace_isolated": 100, "relay_next_level": 50, "listening_after_history": 50}
BUDGET = {"quick": 600, "thorough": 1500}
EXHAUSTIVE = {"quick": "all 781x6 listening entries (default bytes, multicast on and off)",
              "thorough": "all 781x780 (source, destination) pairs in both roles with default bytes; all 781x6 listening entries for every byte set"}

ALL = net_ref.all_addresses()


def bytesets(seed, n):
    dflt = bytes([0xC3, 0x3C, 0x33, 0xCE, 0x3E, 0xE3])
    rng = random.Random(seed * 77 + 5)
    out = [(0xCC, dflt),
           # partial customisations (the nodes are constructed with the default bytes, then the new
           # bytes are assigned and node_address is re-assigned): the prefix only; two suffix bytes
           # only; extreme byte values 0x00 / 0xFF inside the suffix
           (rng.choice([0xDB, 0x5A, 0x01]), dflt),
           (0xCC, bytes([0xC3, 0x3C, 0x71, 0xCE, 0x9A, 0xE3])),
           (rng.randrange(1, 255), bytes([0x5C, 0xFF, 0x33, 0x00, 0x3E, 0xA1]) if seed % 2 == 0
            else bytes([0x5C, 0x00, 0x33, 0x7E, 0xFF, 0xA1]))]
    n += 3
    while len(out) < n + 1:
        vals = rng.sample(range(1, 255), 7)
        out.append((vals[0], bytes(vals[1:])))
    return out


class Network781:
    def __init__(self, prefix, suffix, multicast):
        m = repo()
        self.m = m
        self.prefix, self.suffix = prefix, bytes(suffix)
        self.rig = Rig(seed=4, profile=W.Profile(spi_overhead=10000, spi_byte=400, pin=1000,
                                                 timecall=500, jitter=0.0))
        self.node = self.rig.node
        self.rig.world.horizon = 1 << 60  # one MCU thread drives 781 nodes for a long virtual time
        self.objs = {}
        self.radios = {}
        self.byname = {}
        cls = m["rf24_network"].RF24Network
        default = prefix == 0xCC and suffix == net_ref.DEF_SUFFIX and multicast
        for a in ALL:
            r = self.rig.radio("%o" % a)
            r.trace_on = False
            o = self.rig.driver(r, cls=cls, node_address=a)
            if not default:
                o.address_prefix = bytearray([prefix])
                o.address_suffix = bytearray(suffix)
                o.allow_multicast = multicast
                o.node_address = a  # documented way to apply new address bytes
            self.objs[a] = o
            self.radios[a] = r
            self.byname[r.name] = a
        self.rig.air.keep_log = True

    def clear_rx(self):
        for p in self.rig.air.log:
            for name, out in p.outcomes:
                if out.startswith("rx:") and name in self.byname:
                    r = self.radios[self.byname[name]]
                    r.rx_fifo.clear()
                    r.flags &= ~0x40  # only what the reception latched (a pending MAX_RT is the driver's business)
        del self.rig.air.log[:]

    def first_tx(self, src):
        """(receivers [(addr, pipe)], packet) of the first data packet src put on air"""
        for p in self.rig.air.log:
            if p.kind == "data" and p.src is self.radios[src]:
                rec = [(self.byname[n], int(o[3:])) for n, o in p.outcomes if o.startswith("rx:")]
                return rec, p
        return None, None

    def close(self):
        self.rig.close()


def dest_sample(rng, n, k=48):
    """destinations covering parent, children, grandchild, sibling, cousin, master, deep leaf"""
    out = set()
    lvl = net_ref.level(n)
    if n:
        out.add(net_ref.parent(n))
        out.add(0)
    for c in range(1, 6):
        if lvl < 4:
            ch = n | (c << (3 * lvl))
            out.add(ch)
            if lvl < 3:
                out.add(ch | (rng.randrange(1, 6) << (3 * (lvl + 1))))
    if n:
        p = net_ref.parent(n)
        for c in range(1, 6):
            out.add(p | (c << (3 * (lvl - 1))))
    while len(out) < k + 1:
        out.add(ALL[rng.randrange(len(ALL))])
    out.discard(n)
    return sorted(out)[:k] if len(out) > k else sorted(out)


def run_shard(ctx):
    sets = bytesets(ctx.seed, 2 if ctx.tier == "quick" else 6)
    configs = [(p, s, mc) for (p, s) in sets for mc in (True, False)]
    rng = ctx.sub_rng("c04", ctx.shard)
    for ci, (prefix, suffix, mc) in enumerate(configs):
        if ctx.out_of_time():
            break
        net = Network781(prefix, suffix, mc)
        try:
            if ci % ctx.nshards == ctx.shard % max(1, min(ctx.nshards, len(configs))) or ctx.nshards == 1:
                if not table_checks(ctx, net, prefix, suffix, mc, ci):
                    continue
            # next hops: my slice of the source nodes
            mine = [a for i, a in enumerate(ALL) if i % ctx.nshards == ctx.shard]
            full = ctx.tier == "thorough" and ci == 0
            ndst = 48 if ci == 0 else 4
            if not hop_checks(ctx, net, mine, full, ndst, rng, ci, mc):
                continue
            if mc:
                multicast_checks(ctx, net, mine, rng, ci)
                relay_checks(ctx, net, mine, ctx.sub_rng("c04relay", ctx.shard, ci), ci)
            if ci < 2 or ctx.tier == "thorough":
                history_checks(ctx, net, mine, rng, ci, mc)
                readdress_checks(ctx, net, mine, rng, ci, mc)
                inplace_checks(ctx, net, mine, rng, ci, mc)
        finally:
            net.close()


def table_checks(ctx, net, prefix, suffix, mc, ci):
    seen = {}
    levels = {}
    for a in ALL:
        r = net.radios[a]
        if r.r[2] != 0x3F:
            ctx.violation("pipes-not-all-open", "node %o EN_RXADDR=%02X" % (a, r.r[2]), {"cfg": ci})
            return False
        for p in range(6):
            ctx.clause("listening_entries")
            addr = r.pipe_addr(p)
            if p == 0 and mc:
                levels.setdefault(net_ref.level(a), set()).add(addr)
                continue
            if addr in seen:
                ctx.violation("pipe-address-collision", "node %o pipe %d and node %o pipe %d both "
                              "listen on %s (prefix %02X suffix %s multicast %s)"
                              % (a, p, seen[addr][0], seen[addr][1], addr.hex(), prefix, suffix.hex(), mc),
                              {"cfg": ci})
                return False
            seen[addr] = (a, p)
    if mc:
        lv_addrs = {}
        for lvl, s in levels.items():
            if len(s) != 1:
                ctx.violation("level-address-not-shared", "level %d nodes listen on %d different "
                              "pipe-0 addresses" % (lvl, len(s)), {"cfg": ci})
                return False
            ad = next(iter(s))
            if ad in lv_addrs.values() or ad in seen:
                ctx.violation("level-address-collision", "pipe-0 address %s of level %d is also "
                              "used elsewhere" % (ad.hex(), lvl), {"cfg": ci})
                return False
            lv_addrs[lvl] = ad
    ctx.nontrivial(("table", prefix, suffix, mc))
    ctx.count("tables_checked")
    return True


_UNIQ = [76]


def one_hop(ctx, net, n, d, role, ci, tag=""):
    """node n transmits towards d (as origin, or as router of an injected frame); the FIRST packet
    must be accepted by exactly the reference next hop. Returns the hop, None (violation) or
    "skip"."""
    Hdr = net.m["structs"].RF24NetworkHeader
    node = net.node
    want = net_ref.next_hop(n, d)
    net.clear_rx()
    node.deadline = node.t + 2000 * W.MS
    try:
        if role == "origin":
            ret = net.objs[n].send(Hdr(d, 0), b"c04")
        else:
            # only where n really is an intermediate hop: an origin whose tree
            # path to d passes through n
            lvl = net_ref.level(n)
            if lvl == 4:
                return "skip"  # leaves never forward
            if net_ref.is_descendant(d, n):
                if n:
                    origin = net_ref.parent(n)
                else:
                    br = net_ref.digits(d)[0]
                    origin = 1 if br != 1 else 2
            else:
                origin = n | (1 << (3 * lvl))
                if origin == net_ref.DEFAULT_ADDR:
                    origin = n | (2 << (3 * lvl))
            # every injected frame is different (the receiving radio discards a packet that
            # repeats the PID and CRC of the previous one - the PID has only 2 bits)
            _UNIQ[0] = (_UNIQ[0] + 1) & 0xFFFF
            frame = net_ref.pack_header(origin, d, _UNIQ[0], 0, 0) + b"c04"
            net.radios[n].inject_rx(1, frame)
            ret = net.objs[n].update()
    except W.VirtualDeadline:
        ctx.violation("no-return/" + role, "node %o -> %o did not return" % (n, d),
                      {"cfg": ci, "n": n, "d": d, "role": role})
        return None
    except Exception as e:  # noqa: BLE001
        ctx.violation("raised/" + role, "node %o as %s for destination %o raised %r %s"
                      % (n, role, d, e, tag), {"cfg": ci, "n": n, "d": d, "role": role})
        return None
    finally:
        node.deadline = None
    rec, pkt = net.first_tx(n)
    ctx.clause("next_hop_" + role)
    ctx.evaluations += 1
    case = {"cfg": ci, "n": n, "d": d, "role": role}
    if tag:
        case["history"] = tag
    if pkt is None:
        ctx.violation("nothing-transmitted/" + role, "node %o as %s for destination %o "
                      "transmitted nothing (returned %r) %s" % (n, role, d, ret, tag), case)
        return None
    if len(rec) != 1:
        ctx.violation("hop-not-unique/" + role, "node %o -> %o: TX address %s accepted "
                      "by %r %s" % (n, d, pkt.addr.hex(), [("%o" % a, p) for a, p in rec], tag), case)
        return None
    h_air = net_ref.unpack_header(pkt.payload) if len(pkt.payload) >= 8 else None
    if h_air is None or h_air["to"] != d:
        ctx.violation("other-frame-on-air/" + role, "node %o as %s for destination %o: the first packet on air "
                      "carries a frame for %s (to pipe address %s) %s"
                      % (n, role, d, "%o" % h_air["to"] if h_air else "?", pkt.addr.hex(), tag), case,
                      {"air": [(p.src.name, p.kind, p.addr.hex(), p.payload[:8].hex(), p.attempt,
                                [o for o in p.outcomes if not o[1].startswith("miss")][:3]) for p in net.rig.air.log[:8]],
                       "ret": repr(ret), "tx_fifo": len(net.radios[n].tx_fifo), "flags": net.radios[n].flags})
        return None
    got = rec[0][0]
    if got != want:
        ctx.violation("wrong-next-hop/" + role, "node %o as %s for destination %o "
                      "transmitted to node %o, the tree path goes via %o %s"
                      % (n, role, d, got, want, tag), case)
        return None
    if got != net_ref.parent(n) and net_ref.parent(got) != n:
        ctx.violation("hop-not-neighbour/" + role, "%o -> %o is neither parent nor "
                      "child" % (n, got), case)
        return None
    if role == "origin" and ret is not True:
        ctx.cross_obs("C05", "write-false", "node %o -> %o returned %r" % (n, d, ret))
    return got


def hop_checks(ctx, net, mine, full, ndst, rng, ci, mc):
    observed = {}
    for n in mine:
        if ctx.out_of_time():
            return True
        dsts = [d for d in ALL if d != n] if full else dest_sample(rng, n, ndst)
        for d in dsts:
            for role in ("origin", "router"):
                if role == "router" and not full and (d + n) % 3 and ci:
                    continue
                got = one_hop(ctx, net, n, d, role, ci)
                if got is None:
                    return False
                if got == "skip":
                    continue
                observed[(n, d, role)] = got
                if (n + d) % 97 == 0:
                    ctx.nontrivial((ci, mc, net_ref.level(n), net_ref.level(d), role,
                                    len(net_ref.tree_path(n, d))))
        ctx.nontrivial((ci, mc, n))
    # compose observed next hops into paths where the chain is closed
    for (n, d, role), nxt in list(observed.items()):
        if role != "origin":
            continue
        path = [nxt]
        cur = nxt
        ok = True
        while cur != d:
            h = observed.get((cur, d, "router"))
            if h is None:
                ok = False
                break
            path.append(h)
            cur = h
            if len(path) > 8:
                ctx.violation("path-too-long", "%o -> %o takes more than 8 hops: %r" % (n, d, path),
                              {"cfg": ci, "n": n, "d": d})
                return False
        if ok:
            ctx.clause("path_composition")
            if path != net_ref.tree_path(n, d):
                ctx.violation("path-mismatch", "%o -> %o observed %r, tree path %r"
                              % (n, d, path, net_ref.tree_path(n, d)), {"cfg": ci, "n": n, "d": d})
                return False
    ctx.sample({"cfg": ci, "multicast": mc, "nodes_driven": len(mine),
                "observed_hops": len(observed), "example": {"node": "%o" % mine[-1]}})
    return True


def one_multicast(ctx, net, n, lvl, ci, tag="", own_level=None):
    node = net.node
    net.clear_rx()
    node.deadline = node.t + 2000 * W.MS
    try:
        ret = net.objs[n].multicast(b"mc", 7, lvl) if lvl is not None else net.objs[n].multicast(b"mc", 7)
    finally:
        node.deadline = None
    target = (net_ref.level(n) if own_level is None else own_level) if lvl is None else lvl
    rec, pkt = net.first_tx(n)
    ctx.clause("multicast_level")
    case = {"cfg": ci, "n": n, "level": lvl}
    if tag:
        case["history"] = tag
    if pkt is None:
        ctx.violation("multicast-nothing-transmitted", "node %o multicast(level=%r) "
                      "transmitted nothing (returned %r) %s" % (n, lvl, ret, tag), case)
        return False
    got = sorted(a for a, p in rec)
    want = sorted(a for a in ALL if net_ref.level(a) == target and a != n)
    if got != want or any(p != 0 for a, p in rec):
        lv = sorted({net_ref.level(a) for a in got})
        ctx.violation("multicast-wrong-level", "node %o multicast(level=%r): accepted by %d "
                      "nodes of level(s) %r, expected the %d nodes of level %d %s"
                      % (n, lvl, len(got), lv, len(want), target, tag), case)
        return False
    return True


def multicast_checks(ctx, net, mine, rng, ci):
    senders = [a for a in mine if a in (0, 0o1, 0o2, 0o11, 0o21, 0o311, 0o5311)] + rng.sample(mine, min(3, len(mine)))
    for n in senders:
        for lvl in (None, 0, 1, 2, 3, 4):
            if one_multicast(ctx, net, n, lvl, ci):
                ctx.nontrivial((ci, "mc", net_ref.level(n), lvl))


def relay_checks(ctx, net, mine, rng, ci):
    """a node with multicast_relay on passes a multicast it receives on to the NEXT level: that
    re-broadcast is 'a multicast addressed to that level' too - accepted by exactly the nodes of
    level+1 (levels 1..3), and by nobody when there is no next level (level 4)"""
    picks = [a for a in mine if a in (0o1, 0o3, 0o21, 0o45, 0o321, 0o543, 0o4321, 0o1111, 0o5555)]
    picks += rng.sample([a for a in mine if a], min(3, len([a for a in mine if a])))
    for pi, n in enumerate(picks):
        lvl = net_ref.level(n)
        o = net.objs[n]
        net.clear_rx()
        moved = None
        if pi % 2:
            # the relay was switched on while the object still had ANOTHER address (another level);
            # it was given its address afterwards (node_address setter; a mesh node's lease does the same)
            moved = rng.choice([a for a in ALL if net_ref.level(a) != lvl])
            o.node_address = moved
            o.multicast_relay = True
            o.node_address = n
            ctx.count("relays_switched_on_before_the_node_was_given_its_address")
        else:
            o.multicast_relay = True
        node = net.node
        node.deadline = node.t + 2000 * W.MS
        try:
            _UNIQ[0] = (_UNIQ[0] + 1) & 0xFFFF
            net.radios[n].inject_rx(0, net_ref.pack_header(0o2 if n != 0o2 else 0o3, 0o100, _UNIQ[0], 9, 0) + b"relay me")
            o.update()
            while o.available():
                o.read()
        finally:
            node.deadline = None
            o.multicast_relay = False
        rec, pkt = net.first_tx(n)
        ctx.clause("relay_next_level")
        case = {"cfg": ci, "n": n, "relay": True}
        got = sorted(a for a, p in rec) if pkt is not None else []
        want = sorted(a for a in ALL if net_ref.level(a) == lvl + 1 and a != n) if lvl < 4 else []
        if pkt is None or got != want or any(p != 0 for a, p in rec):
            ctx.violation("relay-wrong-level", "node %o (level %d%s) relaying a multicast: %s, accepted by %d nodes of "
                          "level(s) %r, expected %d nodes of level %d"
                          % (n, lvl, "" if moved is None else "; relay switched on while it was node %o" % moved, "nothing transmitted" if pkt is None else "sent to %s" % pkt.addr.hex(), len(got),
                             sorted({net_ref.level(a) for a in got}), len(want), lvl + 1), case)
            return
        ctx.nontrivial((ci, "relay", lvl))


SPECIAL = (0, 0o1, 0o2, 0o5, 0o11, 0o21, 0o15, 0o444, 0o4443, 0o3444, 0o1111, 0o311)


def history_checks(ctx, net, mine, rng, ci, mc):
    """what one node transmitted before must not matter: interleaved unicasts (as origin and as
    router), multicasts to every level and unicasts whose next hop has the same number as a level
    name (0o1 ~ level 1) - every transmission is judged like a first one"""
    nodes = [a for a in mine if a in SPECIAL] + rng.sample(mine, min(4 if ctx.tier == "quick" else 16, len(mine)))
    for n in nodes:
        if ctx.out_of_time():
            return
        lvl = net_ref.level(n)
        near = [d for d in (0o1, 0o11, 0o21, 0o321, 0o2, 0o12, 0, 0o4443, 0o4441) if d != n]
        pool = dest_sample(rng, n, 12) + near
        tag = []
        for k in range(14 if ctx.tier == "quick" else 40):
            r = rng.random()
            if k % 5 == 4:
                # a message of an acknowledged type to a node two or more hops away (the origin waits
                # for a NETWORK_ACK in RX mode), then the node's listening addresses are looked at:
                # they are those of a fresh node of its address, whatever it sent before
                far = [d for d in pool if d != n and len(net_ref.tree_path(n, d)) >= 2]
                if far:
                    net.clear_rx()
                    node_ = net.node
                    node_.deadline = node_.t + 3000 * W.MS
                    try:
                        net.objs[n].send(net.m["structs"].RF24NetworkHeader(rng.choice(far), 70 + k), b"far")
                    finally:
                        node_.deadline = None
                    tag.append("ack-typed far send")
                why = N.listening_invariant(_Shim(net.objs[n], net.radios[n]))
                ctx.clause("listening_after_history")
                if why:
                    ctx.violation("listening-after-history", "node %o after %s: %s" % (n, ",".join(tag[-4:]), why),
                                  {"cfg": ci, "n": n, "history": tag[-6:]})
                    return
                continue
            if mc and r < 0.35:
                L = rng.choice([None, 0, 1, 1, 2, 3, 4])
                tag.append("mc%r" % L)
                if not one_multicast(ctx, net, n, L, ci, tag="after " + ",".join(tag[-4:-1])):
                    return
            elif r < 0.45:
                # the next hop does not answer (tuned away for a moment): the transmission fails for
                # the whole tx_timeout; what the node sends NEXT must be its next frame, to the right pipe
                d = rng.choice(pool)
                hop = net_ref.next_hop(n, d)
                rh = net.radios[hop]
                ch = rh.r[5]
                rh.r[5] = 99
                net.clear_rx()
                net.node.deadline = net.node.t + 4000 * W.MS
                try:
                    net.objs[n].send(net.m["structs"].RF24NetworkHeader(d, 0), b"lost")
                finally:
                    net.node.deadline = None
                    rh.r[5] = ch
                tag.append("fail>%o" % d)
                ctx.count("failed_hops_in_histories")
                continue
            else:
                d = rng.choice(pool)
                role = "origin" if r < 0.8 or lvl == 4 else "router"
                tag.append("%s>%o" % (role[0], d))
                got = one_hop(ctx, net, n, d, role, ci, tag="after " + ",".join(tag[-4:-1]))
                if got is None:
                    return
            ctx.clause("history_independent")
        ctx.nontrivial((ci, "hist", n))


def inplace_checks(ctx, net, mine, rng, ci, mc):
    """one node changes its address bytes IN PLACE (the attributes are mutable bytearrays): every
    other node must go on translating with its own bytes"""
    if len(mine) < 4:
        return
    x = rng.choice(mine)
    ox = net.objs[x]
    ox.address_suffix[1 + rng.randrange(5)] ^= 0x55
    ox.address_prefix[0] ^= 0x0F
    ctx.count("inplace_customisations")
    try:
        for n in rng.sample([a for a in mine if a != x], min(4, len(mine) - 1)):
            net.objs[n].node_address = n  # a re-begin would pick foreign bytes up for the RX pipes too
            for d in dest_sample(rng, n, 6):
                if d == x or net_ref.next_hop(n, d) == x:
                    continue
                ctx.clause("inplace_isolated")
                if one_hop(ctx, net, n, d, "origin", ci, tag="after node %o changed its address bytes in place" % x) is None:
                    return
            if mc and not one_multicast(ctx, net, n, None, ci, tag="after node %o changed its address bytes in place" % x):
                return
    finally:
        ox.address_suffix[:] = net.suffix
        ox.address_prefix[:] = bytes([net.prefix])
        ox.node_address = x


def readdress_checks(ctx, net, mine, rng, ci, mc):
    """a node object that was something else before (node_address / multicast_level assigned at
    run time) listens and routes exactly like a fresh node of its final address"""
    nodes = [a for a in mine if a in SPECIAL] + rng.sample(mine, min(5 if ctx.tier == "quick" else 24, len(mine)))
    lvl_addr = {}
    if mc:
        for a in (0, 0o1, 0o11, 0o111, 0o1111):
            lvl_addr[net_ref.level(a)] = net.radios[a].pipe_addr(0)
    for n in nodes:
        if ctx.out_of_time():
            return
        o, r = net.objs[n], net.radios[n]
        fresh = [r.pipe_addr(p) for p in range(6)]
        lvl = net_ref.level(n)
        hist = []
        for k in range(rng.randrange(1, 4)):
            if mc and rng.random() < 0.45:
                L = lvl if rng.random() < 0.5 else rng.randrange(0, 5)
                o.multicast_level = L
                hist.append("multicast_level=%d" % L)
            else:
                x = ALL[rng.randrange(len(ALL))]
                o.node_address = x
                hist.append("node_address=%o" % x)
        toggled = mc and rng.random() < 0.4
        if toggled:
            # multicasting switched off (applied by the re-addressing that follows) and on again,
            # re-opened by assigning multicast_level - the node's own level, i.e. its present value
            o.allow_multicast = False
            hist.append("allow_multicast=False")
        o.node_address = n
        hist.append("node_address=%o" % n)
        if toggled:
            o.allow_multicast = True
            o.multicast_level = lvl
            hist += ["allow_multicast=True", "multicast_level=%d" % lvl]
        final_mlevel = None
        if mc and rng.random() < 0.3:
            final_mlevel = rng.randrange(0, 5)
            o.multicast_level = final_mlevel
            hist.append("multicast_level=%d" % final_mlevel)
        tag = "after " + "; ".join(hist)
        now = [r.pipe_addr(p) for p in range(6)]
        want = list(fresh)
        if final_mlevel is not None:
            want[0] = lvl_addr[final_mlevel]
        ctx.clause("readdressed_like_fresh")
        if now != want or r.r[2] != 0x3F:
            bad = [p for p in range(6) if now[p] != want[p]]
            ctx.violation("readdressed-listening", "node %o %s: pipes %r listen on %r, a fresh node "
                          "listens on %r (EN_RXADDR %02X)" % (n, tag, bad, [now[p].hex() for p in bad],
                                                             [want[p].hex() for p in bad], r.r[2]),
                          {"cfg": ci, "n": n, "history": hist})
            return
        ok = True
        for d in dest_sample(rng, n, 8):
            if one_hop(ctx, net, n, d, "origin", ci, tag=tag) is None:
                ok = False
                break
            if lvl < 4 and one_hop(ctx, net, n, d, "router", ci, tag=tag) is None:
                ok = False
                break
        if not ok:
            return
        if mc:
            if not one_multicast(ctx, net, n, None, ci, tag=tag, own_level=final_mlevel):
                return
            if not one_multicast(ctx, net, n, rng.randrange(0, 5), ci, tag=tag):
                return
        if final_mlevel is not None:
            o.multicast_level = lvl
        ctx.nontrivial((ci, "readdr", n, len(hist)))


def run_case(ctx, case):
    """replay of one observation: {cfg, n, d, role} (or a table / multicast case)"""
    sets = bytesets(ctx.seed, 6)
    configs = [(p, s, mc) for (p, s) in sets for mc in (True, False)]
    prefix, suffix, mc = configs[case.get("cfg", 0) % len(configs)]
    net = Network781(prefix, suffix, mc)
    try:
        if "n" not in case:
            table_checks(ctx, net, prefix, suffix, mc, case.get("cfg", 0))
        elif case.get("relay"):
            relay_checks(ctx, net, [case["n"]], ctx.sub_rng("replay"), case.get("cfg", 0))
        elif "level" in case:
            multicast_checks(ctx, net, [case["n"]], ctx.sub_rng("replay"), case.get("cfg", 0))
        else:
            rng = ctx.sub_rng("replay")
            hop_checks(ctx, net, [case["n"]], True, 0, rng, case.get("cfg", 0), mc)
    finally:
        net.close()
