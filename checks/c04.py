"""C04 - tree routing connects all 781 addresses; pipe addresses never collide. DESIGN §4/C04.

A complete 781-node network of real RF24Network objects is built on 781 simulated radios
sharing one medium (one MCU thread drives them one at a time).  Ground truth is what the
radios do: the listening table is read from their registers, and every observed hop is a
real transmission whose receivers are whichever radios accept it."""
import random

from refmodels import net_ref
from vsim import world as W
from vsim.rig import Rig, repo

PROP = "C04"
RULE = ("781 real RF24Network nodes (every valid address of levels 0..4) on one simulated medium, "
        "for the default and for seeded random distinct address_prefix/address_suffix bytes, with "
        "allow_multicast on and off. (1) listening table read from the radios: all 781x6 (node, "
        "pipe) entries - uniqueness over the address space, level-shared pipe-0 addresses; (2) "
        "observed next hops: for (node, destination) the node writes as origin and forwards an "
        "injected frame as router; the FIRST transmission must be accepted by exactly one radio, "
        "the reference next hop (parent or direct child) - quick: 48 destinations per node chosen "
        "by class, thorough: all 781x780 pairs, both roles; observed hops are composed into paths "
        "(<= 8 hops, equal to the tree path); (3) multicasts from sampled nodes to levels 0..4/None "
        "must be accepted by exactly the nodes of that level on pipe 0. Non-trivial: a "
        "transmission was observed; distinct = (byte set, multicast flag, node, destination "
        "class, role).")
REQUIRED = {"listening_entries": 4000, "next_hop_origin": 1000, "next_hop_router": 1000,
            "multicast_level": 50, "path_composition": 500}
BUDGET = {"quick": 150, "thorough": 900}
EXHAUSTIVE = {"quick": "all 781x6 listening entries (default bytes, multicast on and off)",
              "thorough": "all 781x780 (source, destination) pairs in both roles with default bytes; all 781x6 listening entries for every byte set"}

ALL = net_ref.all_addresses()


def bytesets(seed, n):
    out = [(0xCC, bytes([0xC3, 0x3C, 0x33, 0xCE, 0x3E, 0xE3]))]
    rng = random.Random(seed * 77 + 5)
    while len(out) < n + 1:
        vals = rng.sample(range(1, 255), 7)
        out.append((vals[0], bytes(vals[1:])))
    return out


class Network781:
    def __init__(self, prefix, suffix, multicast):
        m = repo()
        self.m = m
        self.rig = Rig(seed=4, profile=W.Profile(spi_overhead=10000, spi_byte=400, pin=1000,
                                                 timecall=500, jitter=0.0))
        self.node = self.rig.node
        self.rig.world.horizon = 1 << 60  # one MCU thread drives 781 nodes for a long virtual time
        self.objs = {}
        self.radios = {}
        self.byname = {}
        cls = m["rf24_network"].RF24Network
        default = prefix == 0xCC and suffix == net_ref.DEF_SUFFIX and multicast
        for a in ALL:
            r = self.rig.radio("%o" % a)
            r.trace_on = False
            o = self.rig.driver(r, cls=cls, node_address=a)
            if not default:
                o.address_prefix = bytearray([prefix])
                o.address_suffix = bytearray(suffix)
                o.allow_multicast = multicast
                o.node_address = a  # documented way to apply new address bytes
            self.objs[a] = o
            self.radios[a] = r
            self.byname[r.name] = a
        self.rig.air.keep_log = True

    def clear_rx(self):
        for p in self.rig.air.log:
            for name, out in p.outcomes:
                if out.startswith("rx:") and name in self.byname:
                    r = self.radios[self.byname[name]]
                    r.rx_fifo.clear()
                    r.flags = 0
        del self.rig.air.log[:]

    def first_tx(self, src):
        """(receivers [(addr, pipe)], packet) of the first data packet src put on air"""
        for p in self.rig.air.log:
            if p.kind == "data" and p.src is self.radios[src]:
                rec = [(self.byname[n], int(o[3:])) for n, o in p.outcomes if o.startswith("rx:")]
                return rec, p
        return None, None

    def close(self):
        self.rig.close()


def dest_sample(rng, n, k=48):
    """destinations covering parent, children, grandchild, sibling, cousin, master, deep leaf"""
    out = set()
    lvl = net_ref.level(n)
    if n:
        out.add(net_ref.parent(n))
        out.add(0)
    for c in range(1, 6):
        if lvl < 4:
            ch = n | (c << (3 * lvl))
            out.add(ch)
            if lvl < 3:
                out.add(ch | (rng.randrange(1, 6) << (3 * (lvl + 1))))
    if n:
        p = net_ref.parent(n)
        for c in range(1, 6):
            out.add(p | (c << (3 * (lvl - 1))))
    while len(out) < k + 1:
        out.add(ALL[rng.randrange(len(ALL))])
    out.discard(n)
    return sorted(out)[:k] if len(out) > k else sorted(out)


def run_shard(ctx):
    sets = bytesets(ctx.seed, 2 if ctx.tier == "quick" else 6)
    configs = [(p, s, mc) for (p, s) in sets for mc in (True, False)]
    rng = ctx.sub_rng("c04", ctx.shard)
    for ci, (prefix, suffix, mc) in enumerate(configs):
        if ctx.out_of_time():
            break
        net = Network781(prefix, suffix, mc)
        try:
            if ci % ctx.nshards == ctx.shard % max(1, min(ctx.nshards, len(configs))) or ctx.nshards == 1:
                if not table_checks(ctx, net, prefix, suffix, mc, ci):
                    continue
            # next hops: my slice of the source nodes
            mine = [a for i, a in enumerate(ALL) if i % ctx.nshards == ctx.shard]
            full = ctx.tier == "thorough" and ci == 0
            ndst = 48 if ci == 0 else 4
            if not hop_checks(ctx, net, mine, full, ndst, rng, ci, mc):
                continue
            if mc:
                multicast_checks(ctx, net, mine, rng, ci)
        finally:
            net.close()


def table_checks(ctx, net, prefix, suffix, mc, ci):
    seen = {}
    levels = {}
    for a in ALL:
        r = net.radios[a]
        if r.r[2] != 0x3F:
            ctx.violation("pipes-not-all-open", "node %o EN_RXADDR=%02X" % (a, r.r[2]), {"cfg": ci})
            return False
        for p in range(6):
            ctx.clause("listening_entries")
            addr = r.pipe_addr(p)
            if p == 0 and mc:
                levels.setdefault(net_ref.level(a), set()).add(addr)
                continue
            if addr in seen:
                ctx.violation("pipe-address-collision", "node %o pipe %d and node %o pipe %d both "
                              "listen on %s (prefix %02X suffix %s multicast %s)"
                              % (a, p, seen[addr][0], seen[addr][1], addr.hex(), prefix, suffix.hex(), mc),
                              {"cfg": ci})
                return False
            seen[addr] = (a, p)
    if mc:
        lv_addrs = {}
        for lvl, s in levels.items():
            if len(s) != 1:
                ctx.violation("level-address-not-shared", "level %d nodes listen on %d different "
                              "pipe-0 addresses" % (lvl, len(s)), {"cfg": ci})
                return False
            ad = next(iter(s))
            if ad in lv_addrs.values() or ad in seen:
                ctx.violation("level-address-collision", "pipe-0 address %s of level %d is also "
                              "used elsewhere" % (ad.hex(), lvl), {"cfg": ci})
                return False
            lv_addrs[lvl] = ad
    ctx.nontrivial(("table", prefix, suffix, mc))
    ctx.count("tables_checked")
    return True


def hop_checks(ctx, net, mine, full, ndst, rng, ci, mc):
    Hdr = net.m["structs"].RF24NetworkHeader
    node = net.node
    observed = {}
    for n in mine:
        if ctx.out_of_time():
            return True
        dsts = [d for d in ALL if d != n] if full else dest_sample(rng, n, ndst)
        for d in dsts:
            for role in ("origin", "router"):
                if role == "router" and not full and (d + n) % 3 and ci:
                    continue
                want = net_ref.next_hop(n, d)
                net.clear_rx()
                node.deadline = node.t + 2000 * W.MS
                try:
                    if role == "origin":
                        ret = net.objs[n].send(Hdr(d, 0), b"c04")
                    else:
                        # only where n really is an intermediate hop: an origin whose tree
                        # path to d passes through n
                        lvl = net_ref.level(n)
                        if lvl == 4:
                            continue  # leaves never forward
                        if net_ref.is_descendant(d, n):
                            if n:
                                origin = net_ref.parent(n)
                            else:
                                br = net_ref.digits(d)[0]
                                origin = 1 if br != 1 else 2
                        else:
                            origin = n | (1 << (3 * lvl))
                            if origin == net_ref.DEFAULT_ADDR:
                                origin = n | (2 << (3 * lvl))
                        frame = net_ref.pack_header(origin, d, 77, 0, 0) + b"c04"
                        net.radios[n].inject_rx(1, frame)
                        ret = net.objs[n].update()
                except W.VirtualDeadline:
                    ctx.violation("no-return/" + role, "node %o -> %o did not return" % (n, d),
                                  {"cfg": ci, "n": n, "d": d, "role": role})
                    return False
                finally:
                    node.deadline = None
                rec, pkt = net.first_tx(n)
                ctx.clause("next_hop_" + role)
                ctx.evaluations += 1
                case = {"cfg": ci, "n": n, "d": d, "role": role}
                if pkt is None:
                    ctx.violation("nothing-transmitted/" + role, "node %o as %s for destination %o "
                                  "transmitted nothing (returned %r)" % (n, role, d, ret), case)
                    return False
                if len(rec) != 1:
                    ctx.violation("hop-not-unique/" + role, "node %o -> %o: TX address %s accepted "
                                  "by %r" % (n, d, pkt.addr.hex(), [("%o" % a, p) for a, p in rec]), case)
                    return False
                got = rec[0][0]
                if got != want:
                    ctx.violation("wrong-next-hop/" + role, "node %o as %s for destination %o "
                                  "transmitted to node %o, the tree path goes via %o"
                                  % (n, role, d, got, want), case)
                    return False
                if got != net_ref.parent(n) and net_ref.parent(got) != n:
                    ctx.violation("hop-not-neighbour/" + role, "%o -> %o is neither parent nor "
                                  "child" % (n, got), case)
                    return False
                if role == "origin" and ret is not True:
                    ctx.cross_obs("C05", "write-false", "node %o -> %o returned %r" % (n, d, ret))
                observed[(n, d, role)] = got
                if (n + d) % 97 == 0:
                    ctx.nontrivial((ci, mc, net_ref.level(n), net_ref.level(d), role,
                                    len(net_ref.tree_path(n, d))))
        ctx.nontrivial((ci, mc, n))
    # compose observed next hops into paths where the chain is closed
    for (n, d, role), nxt in list(observed.items()):
        if role != "origin":
            continue
        path = [nxt]
        cur = nxt
        ok = True
        while cur != d:
            h = observed.get((cur, d, "router"))
            if h is None:
                ok = False
                break
            path.append(h)
            cur = h
            if len(path) > 8:
                ctx.violation("path-too-long", "%o -> %o takes more than 8 hops: %r" % (n, d, path),
                              {"cfg": ci, "n": n, "d": d})
                return False
        if ok:
            ctx.clause("path_composition")
            if path != net_ref.tree_path(n, d):
                ctx.violation("path-mismatch", "%o -> %o observed %r, tree path %r"
                              % (n, d, path, net_ref.tree_path(n, d)), {"cfg": ci, "n": n, "d": d})
                return False
    ctx.sample({"cfg": ci, "multicast": mc, "nodes_driven": len(mine),
                "observed_hops": len(observed), "example": {"node": "%o" % mine[-1]}})
    return True


def multicast_checks(ctx, net, mine, rng, ci):
    node = net.node
    senders = [a for a in mine if a in (0, 0o1, 0o2, 0o11, 0o21, 0o311, 0o5311)] + rng.sample(mine, min(3, len(mine)))
    for n in senders:
        for lvl in (None, 0, 1, 2, 3, 4):
            net.clear_rx()
            node.deadline = node.t + 2000 * W.MS
            try:
                ret = net.objs[n].multicast(b"mc", 7, lvl) if lvl is not None else net.objs[n].multicast(b"mc", 7)
            finally:
                node.deadline = None
            target = net_ref.level(n) if lvl is None else lvl
            rec, pkt = net.first_tx(n)
            ctx.clause("multicast_level")
            case = {"cfg": ci, "n": n, "level": lvl}
            if pkt is None:
                ctx.violation("multicast-nothing-transmitted", "node %o multicast(level=%r) "
                              "transmitted nothing (returned %r)" % (n, lvl, ret), case)
                continue
            got = sorted(a for a, p in rec)
            want = sorted(a for a in ALL if net_ref.level(a) == target and a != n)
            if got != want or any(p != 0 for a, p in rec):
                lv = sorted({net_ref.level(a) for a in got})
                ctx.violation("multicast-wrong-level", "node %o multicast(level=%r): accepted by %d "
                              "nodes of level(s) %r, expected the %d nodes of level %d"
                              % (n, lvl, len(got), lv, len(want), target), case)
                continue
            ctx.nontrivial((ci, "mc", net_ref.level(n), lvl))


def run_case(ctx, case):
    """replay of one observation: {cfg, n, d, role} (or a table / multicast case)"""
    sets = bytesets(ctx.seed, 6)
    configs = [(p, s, mc) for (p, s) in sets for mc in (True, False)]
    prefix, suffix, mc = configs[case.get("cfg", 0) % len(configs)]
    net = Network781(prefix, suffix, mc)
    try:
        if "n" not in case:
            table_checks(ctx, net, prefix, suffix, mc, case.get("cfg", 0))
        elif "level" in case:
            multicast_checks(ctx, net, [case["n"]], ctx.sub_rng("replay"), case.get("cfg", 0))
        else:
            rng = ctx.sub_rng("replay")
            hop_checks(ctx, net, [case["n"]], True, 0, rng, case.get("cfg", 0), mc)
    finally:
        net.close()
