"""C07 - after any network operation the node listens again on all its addresses.
DESIGN §4/C07.  The invariant (netcommon.listening_invariant) is evaluated by the boundary
recorder at EVERY outermost return or exception of a public network/mesh call of EVERY node
of the scenario; this check adds the nasty histories and also re-runs samples of the C05,
C13 and C14 workloads with the invariant deciding."""
from checks import netcommon as N
from checks import c05, c13, c14
from refmodels import net_ref
from vsim import world as W

PROP = "C07"
RULE = ("2..5 real nodes per scenario; one node under test runs a seeded history of 1..6 calls out "
        "of {send/write to parent | child | absent node | routed destination | itself | invalid "
        "address | wrong argument types | over-long message, fragmented sends aborted at fragment "
        "k, multicast(level), node_address / multicast_level assignment, update() with frames to "
        "forward towards present/absent hops; mesh: renew_address with/without master, "
        "release_address, lookup_address, lookup_node_id, check_connection, send(node_id), "
        "node_id assignment} under fault plans (ACK loss, NETWORK_ACK loss, fragment loss); "
        "plus samples of the C05/C13/C14 scenarios. After every outermost call of every node "
        "(return or exception) the radio must be powered up in RX mode with CE high, six pipes "
        "open on the reference addresses, EN_AA=3E, DYNPD=3F. Non-trivial: >=1 role change "
        "(RX->TX->RX) was observed in the scenario; distinct = (node class, call history with "
        "outcome class per call, fault plan).")
RULE += (" Later rounds added: the node's with block left and entered again before a multicast / send / loop-back, the pipe dump (print_pipes, print_details(True)) as a call kind of the pair sweep; all ordered pairs of call kinds on one node (a third with multicast off), two frames waiting in the RX FIFO for one update(), multicast-off nodes under test. Multicasting switched off and on at run time (applied by assigning node_address or multicast_level again).")
REQUIRED = {"invariant_at_return": 3000, "role_changes": 300, "exception_returns": 20,
            "failed_tx_returns": 50}
BUDGET = {"quick": 480, "thorough": 900}


def gen_pairs(ctx):
    """every ordered pair of call kinds on one node of a fixed small tree (the second call sees
    whatever the first one left behind), followed by an ordinary send"""
    nodes = [0, 0o1, 0o11, 0o21, 0o2]
    absent = 0o31
    for dut in ((0o1,) if ctx.tier == "quick" else (0o1, 0o11, 0)):
        par = net_ref.parent(dut) if dut else 0o1
        own = net_ref.level(dut)
        T = [["send", par, 0, 10], ["send", absent, 70, 30], ["send", 0o2 if dut != 0o2 else 0o1, 66, 72],
             ["send", dut, 3, 4], ["send_invalid", 0o7], ["multicast", None, 8], ["multicast", 2, 24],
             ["multicast", 4, 60], ["node_address", dut], ["node_address", 0o41], ["multicast_level", (own + 1) % 5],
             ["multicast_level", own], ["multicast_level", 4], ["inject_fwd", absent, 70], ["inject_fwd", 0o11 if dut != 0o11 else 0, 1],
             ["inject_two", 0o11 if dut != 0o11 else 0, 1, 193], ["inject_two", 0o2 if dut != 0o2 else 0o21, 70, 131],
             ["send_mc_addr", 1], ["mc_switch", True, "level"], ["mc_switch", True, "addr"], ["mc_switch", False, "addr"],
             ["update"], ["reenter_then", "multicast"], ["reenter_then", "send"], ["reenter_then", "loopback"],
             ["dump_pipes", 0], ["dump_pipes", 1]]
        k = 0
        for a in T:
            for b in T:
                k += 1
                calls = [list(a), list(b), ["send", par, 1, 5]]
                if a[0] == "node_address" and a[1] != dut or b[0] == "node_address" and b[1] != dut:
                    calls = calls[:2]  # the node moved away: its old parent no longer applies
                yield {"kind": "net", "nodes": nodes, "dut": dut, "calls": calls, "fault": None, "fault_k": 0,
                       "seed": 1000 + k, "profile": N.rand_profile(ctx.sub_rng("c07p", k), base=40000),
                       "router": False, "mc_off": k % 3 == 0}


def gen_cases(ctx):
    yield from gen_pairs(ctx)
    rng = ctx.sub_rng("c07")
    n = 220 if ctx.tier == "quick" else 20000
    for i in range(n):
        mesh = (i % 3 == 2)
        base = rng.choice([15000, 40000, 80000, 150000])
        if not mesh:
            nodes = N.tree_topology(rng, 2, 5, 3)
            dut = rng.choice(nodes)
            absent = [a for a in net_ref.all_addresses()[:156] if a not in nodes]
            calls = []
            for _ in range(rng.randrange(1, 7)):
                r = rng.random()
                kids = [a for a in nodes if a and net_ref.parent(a) == dut]
                if r < 0.12:
                    calls.append(["send", net_ref.parent(dut) if dut else (kids or [0o1])[0], rng.choice([0, 65]), rng.choice([0, 10, 24])])
                elif r < 0.22:
                    calls.append(["send", rng.choice(absent), rng.choice([1, 70]), rng.choice([5, 30, 100])])
                elif r < 0.32:
                    calls.append(["send", rng.choice([a for a in nodes if a != dut] or [0o1]), rng.choice([2, 66, 127]),
                                  rng.choice([0, 24, 25, 72, 144])])
                elif r < 0.38:
                    calls.append(["send", dut, 3, rng.choice([4, 40])])
                elif r < 0.43:
                    calls.append(["send_invalid", rng.choice([0o7, 0o60, 0o10000])])
                elif r < 0.46:
                    calls.append(["send_bad_type"] if rng.random() < 0.5 else ["send_mc_addr", rng.choice([1, 70])])
                elif r < 0.49:
                    calls.append(["send_too_long"])
                elif r < 0.62:
                    calls.append(["multicast", rng.choice([None, 0, 1, 2, 3, 4, -1, 9]), rng.choice([0, 8, 24, 60])])
                elif r < 0.70:
                    calls.append(["node_address", rng.choice([dut, rng.choice(absent), 0o7])])
                elif r < 0.78:
                    calls.append(["multicast_level", rng.choice([0, 1, 2, 3, 4, -2, 8])])
                elif r < 0.84:
                    calls.append(["inject_fwd", rng.choice(absent + nodes), rng.choice([1, 70, 148, 193])])
                elif r < 0.9:
                    calls.append(["inject_two", rng.choice(absent + nodes), rng.choice([1, 70]), rng.choice([193, 131, 5, 130])])
                else:
                    calls.append(["update"])
            for q in range(len(calls)):
                if (q * 7 + i) % 11 == 3:
                    calls.insert(q, ["mc_switch", bool((q + i) % 2), ["addr", "level"][(q // 2 + i) % 2]])
            fault = rng.choice([None, None, "ack_loss", "netack_loss", "frag_loss"])
            yield {"kind": "net", "nodes": nodes, "dut": dut, "calls": calls, "fault": fault,
                   "fault_k": rng.randrange(0, 6), "seed": rng.getrandbits(30),
                   "profile": N.rand_profile(rng, base=base), "router": rng.random() < 0.2,
                   "mc_off": rng.random() < 0.2}
        else:
            master = rng.random() < 0.7
            calls = []
            for _ in range(rng.randrange(1, 6)):
                r = rng.random()
                if r < 0.3:
                    calls.append(["renew", rng.choice([0.15, 0.4, 1.0])])
                elif r < 0.4:
                    calls.append(["release"])
                elif r < 0.5:
                    calls.append(["lookup_address", rng.choice([None, 0, 7, 9])])
                elif r < 0.6:
                    calls.append(["lookup_node_id", rng.choice([None, 0, 0o1, 0o4])])
                elif r < 0.7:
                    calls.append(["check_connection", rng.random() < 0.5])
                elif r < 0.8:
                    calls.append(["mesh_send", rng.choice([0, 7, 9]), rng.choice([0, 20, 60])])
                elif r < 0.9:
                    calls.append(["mesh_write", rng.choice([0, 0o1, 0o5, 0o7]), rng.choice([3, 30])])
                else:
                    calls.append(["node_id", rng.choice([7, 8])])
            yield {"kind": "mesh", "master": master, "calls": calls, "seed": rng.getrandbits(30),
                   "fault": rng.choice([None, None, "ack_loss"]), "fault_k": 0,
                   "profile": N.rand_profile(rng, base=base), "others": rng.randrange(0, 2),
                   "dut_cls": rng.choice(["meshnm", "mesh"])}
    # samples of the other network workloads with this monitor deciding
    k = 0
    for gen, tag, every in ((c05.gen_cases, "c05", 6), (c13.gen_cases, "c13", 20), (c14._gen_cases, "c14", 16)):
        for case in gen(ctx):
            k += 1
            if k % every == 0:
                yield {"kind": tag, "case": case}
            if ctx.tier == "quick" and k > 400:
                break


class Mon:
    def __init__(self, ctx, case):
        self.ctx = ctx
        self.case = case
        self.sites = {}
        self.bad = False
        self.ce_edges = 0

    def __call__(self, nn, op, outcome):
        ctx = self.ctx
        ctx.clause("invariant_at_return")
        cls = "ok" if outcome == "ok" else ("exception" if outcome.startswith("exc") else outcome)
        self.sites[(nn.kind, op, cls)] = self.sites.get((nn.kind, op, cls), 0) + 1
        if outcome.startswith("exc"):
            ctx.clause("exception_returns")
        if outcome == "deadline":
            return
        why = N.listening_invariant(nn)
        if why and not self.bad:
            self.bad = True
            ctx.violation("not-listening-after/%s/%s" % (op, why.split()[0].split("=")[0]),
                          "%s node %s after %s (%s): %s" % (nn.kind, oct(nn.obj.node_address), op,
                                                            outcome, why),
                          self.case)


def run_case(ctx, case):
    if case["kind"] in ("c05", "c13", "c14"):
        mod = {"c05": c05, "c13": c13, "c14": c14}[case["kind"]]
        sub = type(ctx)(ctx.prop, ctx.tier, ctx.seed, 0, 1, 1000)  # verdicts of the other check are not ours
        net = N.Net(seed=case["case"]["seed"])
        mon = Mon(ctx, case)
        net.on_return.append(mon)
        try:
            mod._run(sub, case["case"], net)
        finally:
            net.close()
        _finish(ctx, case, net, mon, ("borrowed", case["kind"], case["case"]["seed"]))
        return
    net = N.Net(seed=case["seed"])
    mon = Mon(ctx, case)
    net.on_return.append(mon)
    try:
        if case["kind"] == "net":
            _run_net(ctx, case, net)
        else:
            _run_mesh(ctx, case, net)
        if not net.run(wall_timeout=120):
            ctx.count("watchdog_inconclusive")
            return
    finally:
        net.close()
    outcomes = tuple((r["i"], "exc" if r["exc"] else repr(r["ret"])[:12]) for r in net.results)
    _finish(ctx, case, net, mon, (case["kind"], repr(case["calls"]), case["fault"], outcomes))


def _finish(ctx, case, net, mon, sig):
    roles = 0
    for nn in net.nodes:
        roles += sum(1 for t, v, c in nn.radio.ce_log if v)
        for r in nn.radio.txn_log:
            if not r["ok"]:
                ctx.clause("failed_tx_returns")
    ctx.clause("role_changes", roles)
    ctx.distinct("air_order_digests", net.air_digest())
    for st in net.radio_states():
        ctx.distinct("radio_states", st)
    for k, v in mon.sites.items():
        ctx.count("return_site:%s:%s:%s" % k, v)
    if roles > len(net.nodes):
        ctx.nontrivial(sig)
    ctx.sample({"kind": case["kind"], "calls": case.get("calls", "borrowed scenario")[:4]
                if isinstance(case.get("calls"), list) else "borrowed scenario",
                "invariant_evaluations": sum(mon.sites.values()), "ce_rising_edges": roles,
                "return_sites": {"%s/%s/%s" % k: v for k, v in list(mon.sites.items())[:8]}})


def _fault(case, net, dut_radio):
    kind = case["fault"]
    if kind is None:
        return None
    k = case["fault_k"]

    def fault(pkt, rx):
        if kind == "ack_loss":
            return pkt.kind == "ack" and rx is dut_radio
        if pkt.kind != "data" or len(pkt.payload) < 8:
            return False
        h = net_ref.unpack_header(pkt.payload)
        if kind == "netack_loss":
            return h["type"] == net_ref.NETWORK_ACK
        if kind == "frag_loss":
            # every attempt of fragment index k of the node under test is lost
            if pkt.src is not dut_radio:
                return False
            if h["type"] == net_ref.FRAG_FIRST:
                return k == 0
            if h["type"] == net_ref.FRAG_MORE:
                return k >= 1 and h["reserved"] == max(2, 6 - k)
            if h["type"] == net_ref.FRAG_LAST:
                return k >= 4
        return False
    return fault


def _run_net(ctx, case, net):
    m = net.m
    Hdr, Frame = m["structs"].RF24NetworkHeader, m["structs"].RF24NetworkFrame
    for a in case["nodes"]:
        kind = "router" if (case["router"] and a != case["dut"] and a) else "net"
        def setup(o, a=a):
            if a == case["dut"] and case.get("mc_off"):
                o.allow_multicast = False
                o.node_address = a  # the documented way to apply it
        net.add(kind, a, profile=case["profile"], setup=setup)
    dut = net.bykey[case["dut"]]
    net.air.fault = _fault(case, net, dut.radio)
    for call in case["calls"]:
        def fn(nn, call=call):
            o = nn.obj
            c = call[0]
            if c == "send":
                return o.send(Hdr(call[1], call[2]), bytes(call[3]))
            if c == "send_mc_addr":
                # a frame addressed to the multicast address but written with automatic routing (no level
                # given): whatever the node makes of it, it must listen unacknowledged on pipe 0 afterwards
                return o.send(Hdr(0o100, call[1]), b"to-0o100")
            if c == "send_invalid":
                return o.send(Hdr(call[1] & 0xFFF, 1), b"x") if call[1] < 0o10000 else o.write(Frame(Hdr(0o7, 1), b"x"))
            if c == "send_bad_type":
                return o.write("not a frame")
            if c == "send_too_long":
                return o.send(Hdr(0, 1), bytes(200))
            if c == "multicast":
                return o.multicast(bytes(call[2]), 9) if call[1] is None else o.multicast(bytes(call[2]), 9, call[1])
            if c == "node_address":
                o.node_address = call[1]
                return o.node_address
            if c == "multicast_level":
                o.multicast_level = call[1]
                return o.multicast_level
            if c == "mc_switch":
                # multicasting switched off / on at run time and applied the documented ways:
                # by assigning node_address again, or multicast_level (its present value)
                o.allow_multicast = call[1]
                if call[2] == "addr" or not call[1]:  # (switching OFF is applied by node_address only)
                    o.node_address = o.node_address
                else:
                    o.multicast_level = o.multicast_level
                return o.allow_multicast
            if c == "inject_fwd":
                frm = 0o2 if call[1] != 0o2 else 0o3
                nn.radio.inject_rx(2, net_ref.pack_header(frm, call[1], 99, call[2], 2) + b"fwd")
                return o.update()
            if c == "inject_two":
                # two frames wait in the RX FIFO: one to pass along, then one that update() hands
                # back to its caller (a NETWORK_ACK for this node / external data) or consumes
                frm = 0o2 if call[1] != 0o2 else 0o3
                me = o.node_address
                nn.radio.inject_rx(2, net_ref.pack_header(frm, call[1], 98, call[2], 2) + b"fwd")
                nn.radio.inject_rx(3, net_ref.pack_header(me if call[3] == 193 else frm, me, 97, call[3], 0) + b"second")
                return o.update()
            if c == "update":
                return o.update()
            if c == "reenter_then":
                # the node's `with` block is left and entered again (all shadows are written back to
                # the radio), then one operation: after it the node listens on its addresses again
                o.__exit__(None, None, None)
                o.__enter__()
                if call[1] == "multicast":
                    return o.multicast(b"after-re-entry", 9)
                if call[1] == "loopback":
                    o.send(Hdr(o.node_address, 3), b"to-myself")
                    return o.multicast(b"and-a-multicast", 9)
                return o.send(Hdr(net_ref.parent(o.node_address) if o.node_address else 0o1, 0), b"after-re-entry")
            if c == "dump_pipes":
                import contextlib
                import io
                with contextlib.redirect_stdout(io.StringIO()):
                    o.print_details(True) if call[1] else o.print_pipes()
                return None
            raise KeyError(c)
        net.steps.append({"who": case["dut"], "name": call[0], "fn": fn, "deadline_ms": 6000,
                          "gap": 6 * W.MS})


def _run_mesh(ctx, case, net):
    if case["master"]:
        mnode = net.add("mesh", ("id", 0), profile=case["profile"])
    for j in range(case["others"]):
        net.add("net", [0o1, 0o2][j], profile=case["profile"])
    dut = net.add("mesh" if case.get("dut_cls") == "mesh" else "meshnm", ("id", 7), profile=case["profile"])
    net.air.fault = _fault(case, net, dut.radio)
    for call in case["calls"]:
        def fn(nn, call=call):
            o = nn.obj
            c = call[0]
            if c == "renew":
                return o.renew_address(call[1])
            if c == "release":
                return o.release_address()
            if c == "lookup_address":
                return o.lookup_address(call[1])
            if c == "lookup_node_id":
                return o.lookup_node_id(call[1])
            if c == "check_connection":
                return o.check_connection(attempts=2, ping_master=call[1])
            if c == "mesh_send":
                return o.send(call[1], "M", bytes(call[2]))
            if c == "mesh_write":
                return o.write(call[1], 5, bytes(call[2]))
            if c == "node_id":
                o.node_id = call[1]
                return o.node_id
            raise KeyError(c)
        net.steps.append({"who": ("id", 7), "name": call[0], "fn": fn, "deadline_ms": 12000,
                          "gap": 6 * W.MS})
