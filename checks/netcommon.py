"""Multi-MCU network harness: N real network/mesh driver objects, each on its own
simulated radio and in its own scheduler thread, a director that hands out scripted
steps one at a time, application logs, and return-boundary monitors (C07 invariant).
Used by C04 (single node), C05, C07, C11, C13, C14, C15, C16, C17."""
from refmodels import net_ref
from vsim import world as W
from vsim.radio import Phantom
from vsim.rig import Rig, repo

CLASS = {"net": ("rf24_network", "RF24Network"), "router": ("rf24_network", "RF24NetworkRoutingOnly"),
         "mesh": ("rf24_mesh", "RF24Mesh"), "meshnm": ("rf24_mesh", "RF24MeshNoMaster")}


def profile_from(d):
    return W.Profile(**d) if d else W.Profile()


def rand_profile(rng, cls="homog", base=None):
    if base is None:
        base = rng.choice([15000, 40000, 80000, 80000, 150000, 150000, 300000])
    return {"spi_overhead": base, "spi_byte": 800, "pin": max(1000, base // 15),
            "timecall": max(1000, base // 20), "jitter": 0.3,
            "poll": rng.choice([0, 0, 0, 150000, 500000, 2000000])}


class NetNode:
    def __init__(self, net, key, kind, wnode, radio, obj):
        self.net = net
        self.key = key
        self.kind = kind
        self.wnode = wnode
        self.radio = radio
        self.obj = obj
        self.applog = []
        self.exc = None
        self.calls = 0
        self.busy = False  # inside an outermost driver call
        self.lazy_ns = 0  # application reads its queue at most this often
        self.last_drain = 0
        self.sys_returns = []
        self.peek_bad = []  # (peeked, read) pairs that differ

    @property
    def addr(self):
        return self.obj.node_address


class Net:
    def __init__(self, seed=0, promisc=False):
        self.m = repo()
        self.rig = Rig(seed=seed, bind=False)
        self.world = self.rig.world
        self.world.lookahead = 120 * W.US
        self.air = self.rig.air
        if promisc:
            self.air.promisc = Phantom()
        self.nodes = []
        self.bykey = {}
        self.steps = []
        self.cur = 0
        self.results = []
        self.on_return = []  # callbacks(netnode, opname, outcome)
        self.quiet_gap = 8 * W.MS
        self.settle_cap = 40
        self.not_before = 0
        self.postponed = 0
        self.unquiet_steps = 0
        self.active = None
        Hdr = self.m["structs"].RF24NetworkHeader
        self._hdr = Hdr
        self._idattr = "_RF24NetworkHeader__next_id"
        self.per_node_ids = hasattr(Hdr, self._idattr)
        if self.per_node_ids:
            self.world.swap_frame_ids = self._swap_ids

    def _swap_ids(self, old, new):
        if old is not None:
            old.frame_id_state = getattr(self._hdr, self._idattr)
        if new is not None and new.frame_id_state is not None:
            setattr(self._hdr, self._idattr, new.frame_id_state)

    # -- construction (controller thread) -----------------------------------
    def add(self, kind, key, profile=None, id_start=0, start_at=0, **kw):
        """kind: net|router (key = node address) / mesh|meshnm (key = ('id', node_id))"""
        wn = self.world.add_node("n%s" % (oct(key) if isinstance(key, int) else key[1]),
                                 profile_from(profile))
        wn.t = max(int(start_at), self.world.now)
        wn.frame_id_state = id_start
        radio = self.rig.radio("r" + wn.name[1:], plus=kw.pop("plus", True))
        modname, clsname = CLASS[kind]
        cls = getattr(self.m[modname], clsname)
        self.world.bind(wn)
        if self.per_node_ids:
            setattr(self._hdr, self._idattr, id_start)
        try:
            setup = kw.pop("setup", None)
            if kind in ("net", "router"):
                obj = self.rig.driver(radio, cls=cls, node_address=key, **kw)
            else:
                obj = self.rig.driver(radio, cls=cls, node_id=key[1], **kw)
            if setup:
                setup(obj)
        finally:
            if self.per_node_ids:
                wn.frame_id_state = getattr(self._hdr, self._idattr)
            W.World.unbind()
            wn.done = True
        nn = NetNode(self, key, kind, wn, radio, obj)
        self.nodes.append(nn)
        self.bykey[key] = nn
        return nn

    # -- application ---------------------------------------------------------
    def call(self, nn, opname, fn, *a, deadline_ms=None, **k):
        """outermost public call on a node with boundary monitors"""
        wn = nn.wnode
        nn.calls += 1
        if deadline_ms is not None:
            wn.deadline = wn.t + int(deadline_ms * W.MS)
        outcome = "ok"
        nn.busy = True
        try:
            return fn(*a, **k)
        except W.VirtualDeadline:
            outcome = "deadline"
            raise
        except W.StopNode:
            outcome = "stop"
            raise
        except BaseException as e:  # noqa: BLE001
            outcome = "exc:" + type(e).__name__
            raise
        finally:
            nn.busy = False
            wn.deadline = None
            if outcome != "stop":
                for cb in self.on_return:
                    cb(nn, opname, outcome)

    def drain(self, nn, force=False):
        obj = nn.obj
        if nn.lazy_ns and not force:
            if nn.wnode.t - nn.last_drain < nn.lazy_ns:
                return
        nn.last_drain = nn.wnode.t
        while obj.available():
            pk = None
            if hasattr(obj, "peek") and len(nn.applog) % 3 == 0:
                # the application looks before it takes: peek() must show what read() then returns
                p = obj.peek()
                pk = None if p is None else (p.header.from_node, p.header.to_node, p.header.frame_id,
                                             p.header.message_type, bytes(p.message))
            f = obj.read()
            e = {"t": nn.wnode.t, "from": f.header.from_node, "to": f.header.to_node,
                 "id": f.header.frame_id, "type": f.header.message_type, "msg": bytes(f.message)}
            if pk is not None and pk != (e["from"], e["to"], e["id"], e["type"], e["msg"]):
                nn.peek_bad.append((pk, e))
            nn.applog.append(e)

    def pump_idle(self, nn):
        """application poll; when the radio holds nothing, 7 of 8 polls are charged their
        SPI cost without executing the (no-op) update() call - keeps long idle phases cheap"""
        wn = nn.wnode
        if not nn.radio.rx_fifo and wn.rng.random() < 0.875:
            wn.interact()
            wn.spi_cost(2)
            wn.spi_cost(2)
            return 0
        return self.pump_once(nn)

    def pump_once(self, nn):
        r = self.call(nn, "update", nn.obj.update, deadline_ms=3000)
        if r:
            nn.sys_returns.append(r)
        self.drain(nn)
        return r

    def pump(self, nn, duration_ns):
        wn = nn.wnode
        end = wn.t + int(duration_ns)
        while wn.t < end:
            self.pump_once(nn)
            self.wait(nn, min(end - wn.t, 2 * W.MS))

    def wait(self, nn, max_ns):
        wn = nn.wnode
        poll = wn.profile.poll
        if max_ns <= 0:
            return
        if poll:
            wn.idle(min(poll, max_ns))
        else:
            wn.wait_rx(nn.radio, max_ns)

    def quiescent(self):
        if self.air.inflight:
            return False
        for nn in self.nodes:
            r = nn.radio
            if nn.busy or r.act is not None or r.rx_fifo:
                return False
        return True

    def app(self, nn):
        """generic node application: run my steps when it is my turn, otherwise route"""
        wn = nn.wnode
        try:
            while True:
                comp = self._companion(nn)
                if comp is not None:
                    self._run_companion(nn, comp)
                    continue
                step = self._my_step(nn)
                if step is not None:
                    self._run_step(nn, step)
                    continue
                self.pump_idle(nn)
                if self.cur >= len(self.steps):
                    if wn.t >= self.not_before and (self.quiescent() or self.postponed >= self.settle_cap):
                        if not self.quiescent():
                            self.unquiet_steps += 1
                        self.world.stopping = True
                        return
                    if wn.t >= self.not_before:
                        self.postponed += 1
                        self.not_before = wn.t + 5 * W.MS
                self.wait(nn, 2 * W.MS)
        except W.VirtualDeadline as e:
            nn.exc = e
            raise

    def _companion(self, nn):
        """a second call that must start WHILE the current step is still running (concurrency on
        purpose): picked up by its node `delay_ms` after the main step began"""
        st = self.active
        if st is None:
            return None
        comp = st.get("companion")
        if (comp is None or comp["who"] != nn.key or comp.get("started")
                or nn.wnode.t < st["rec"]["t_call"] + int(comp.get("delay_ms", 10) * W.MS)):
            return None
        comp["started"] = True
        return comp

    def _run_companion(self, nn, comp):
        wn = nn.wnode
        rec = {"i": None, "who": nn.key, "t_call": wn.t, "ret": None, "exc": None, "air0": len(self.air.log)}
        comp["rec"] = rec
        try:
            rec["ret"] = self.call(nn, comp["name"], comp["fn"], nn, deadline_ms=comp.get("deadline_ms", 5000))
        except W.VirtualDeadline:
            rec["exc"] = "deadline"
        except W.StopNode:
            raise
        except Exception as e:  # noqa: BLE001
            rec["exc"] = "%s: %s" % (type(e).__name__, e)
        rec["t_ret"] = wn.t
        rec["air1"] = len(self.air.log)
        self.drain(nn)

    def _my_step(self, nn):
        if self.cur >= len(self.steps):
            return None
        st = self.steps[self.cur]
        if st["who"] != nn.key or st.get("started"):
            return None
        if nn.wnode.t < self.not_before:
            return None
        if not self.quiescent() and self.postponed < self.settle_cap:
            self.postponed += 1
            self.not_before = nn.wnode.t + 5 * W.MS
            return None
        if not self.quiescent():
            self.unquiet_steps += 1
        self.postponed = 0
        st["started"] = True
        return st

    def _run_step(self, nn, st):
        wn = nn.wnode
        rec = {"i": self.cur, "who": nn.key, "t_call": wn.t, "ret": None, "exc": None,
               "air0": len(self.air.log)}
        st["rec"] = rec
        self.active = st
        try:
            rec["ret"] = self.call(nn, st["name"], st["fn"], nn,
                                   deadline_ms=st.get("deadline_ms", 5000))
        except W.VirtualDeadline:
            rec["exc"] = "deadline"
        except W.StopNode:
            raise
        except Exception as e:  # noqa: BLE001
            rec["exc"] = "%s: %s" % (type(e).__name__, e)
        rec["t_ret"] = wn.t
        rec["air1"] = len(self.air.log)
        self.active = None
        self.results.append(rec)
        self.cur += 1
        if st.get("busy_after_ms"):
            # the application does something else for a while before it polls the network again
            # (the next step waits for it: a node that does not poll cannot relay)
            self.not_before = wn.t + int(st["busy_after_ms"] * W.MS) + st.get("gap", self.quiet_gap)
            wn.idle(int(st["busy_after_ms"] * W.MS))
        self.not_before = wn.t + st.get("gap", self.quiet_gap)
        self.drain(nn)

    def run(self, wall_timeout=120):
        # all MCUs enter their application loops once the last one has booted: local clocks
        # behind the global clock would make a node wait for its own radio's "future"
        t0 = max([self.world.now] + [nn.wnode.t for nn in self.nodes])
        for nn in self.nodes:
            nn.wnode.t = t0 + getattr(nn, "start_offset", 0)
        for nn in self.nodes:
            self.world.spawn(nn.wnode, self.app, nn, daemon=True, start_at=nn.wnode.t)
        ok = self.world.run(wall_timeout=wall_timeout)
        if ok:
            for nn in self.nodes:  # what is still queued when the scenario ends
                self.world.bind(nn.wnode)
                try:
                    self.drain(nn, force=True)
                except BaseException:  # noqa: BLE001
                    pass
                W.World.unbind()
                nn.wnode.done = True
        for nn in self.nodes:
            if nn.wnode.exc is not None and nn.exc is None:
                nn.exc = nn.wnode.exc
        return ok

    def air_digest(self):
        """digest of the ordered on-air event sequence = which interleaving of the MCUs was seen"""
        return tuple((p.src.name, p.kind, p.attempt, tuple(o for o in p.outcomes)) for p in self.air.log)

    def radio_states(self):
        s = set()
        for nn in self.nodes:
            s |= {(nn.kind,) + st for st in nn.radio.states}
        return s

    def close(self):
        self.rig.close()


# ---------------------------------------------------------------------------
# C07 invariant: after any outermost network call the node listens on all its addresses
def listening_invariant(nn):
    """returns None when it holds, else a description (DESIGN C07)"""
    r = nn.radio
    obj = nn.obj
    cfg = r.r[0]
    if cfg & 3 != 3:
        return "CONFIG=%02X (not powered up in RX mode)" % cfg
    if not r.ce:
        return "CE low"
    if r.r[2] != 0x3F:
        return "EN_RXADDR=%02X" % r.r[2]
    if r.r[1] != 0x3E:
        return "EN_AA=%02X" % r.r[1]
    if r.r[0x1C] != 0x3F or not r.r[0x1D] & 4:
        return "DYNPD=%02X FEATURE=%02X" % (r.r[0x1C], r.r[0x1D])
    addr = obj.node_address
    prefix = obj.address_prefix[0]
    suffix = bytes(obj.address_suffix)
    mc = bool(obj.allow_multicast)
    for p in range(6):
        if p == 0 and mc:
            want = net_ref.level_address(obj.multicast_level, prefix, suffix)
        else:
            want = net_ref.pipe_address(addr, p, prefix, suffix, mc)
        got = r.pipe_addr(p)
        if got != want:
            return "pipe %d listens on %s, expected %s (node %s level %d)" % (
                p, got.hex(), want.hex(), oct(addr), obj.multicast_level)
    return None


def tree_topology(rng, nmin=2, nmax=12, maxdepth=4):
    """random parent-closed address set containing 0"""
    n = rng.randrange(nmin, nmax + 1)
    nodes = [0]
    shape = rng.choice(["bushy", "chain", "mixed"])
    while len(nodes) < n:
        if shape == "chain":
            cands = [a for a in nodes if net_ref.level(a) < maxdepth]
            p = max(cands, key=net_ref.level) if rng.random() < 0.8 else rng.choice(cands)
        else:
            cands = [a for a in nodes if net_ref.level(a) < maxdepth]
            p = rng.choice(cands)
            if shape == "bushy" and rng.random() < 0.6:
                p = min(cands, key=lambda a: (net_ref.level(a), rng.random()))
        c = rng.randrange(1, 6)
        a = p | (c << (3 * net_ref.level(p)))
        if a not in nodes and a != net_ref.DEFAULT_ADDR:
            nodes.append(a)
    return nodes
