"""C17 - mesh joins yield distinct working addresses; lookups give documented codes.
DESIGN §4/C17."""
import random

from checks import netcommon as N
from refmodels import net_ref
from vsim import world as W

PROP = "C17"
RULE = ("a real RF24Mesh master and 1..12 RF24MeshNoMaster/RF24Mesh joiners with distinct random "
        "IDs, each in its own scheduler thread with a seeded MCU profile, joining concurrently "
        "with start offsets 0..2 s (more than 5 joiners force joins through relays; some nodes "
        "disallow children); then, one node at a time, lookups of own/other/unknown IDs and "
        "addresses and the trivial arguments, a mesh send() to another node ID, "
        "check_connection(), release_address() and a re-join. Ideal medium + homogeneous profiles: "
        "all clauses; hostile medium (loss, collisions, heterogeneous profiles): only "
        "no-exception, termination and valid-or-None. The C16 table invariant is evaluated on the "
        "master after every update(). Non-trivial: >=1 lease granted or refused; distinct = "
        "(joiner count, relay use, profile class, medium, script shape).")
RULE += (" Later rounds added: deep narrow trees joined through level-2/3 relays, timeouts sized to the joiner count, a quiet network before every turn, origin stamp of frames the master originates, injected late duplicate requests, master-expired leases, send to the own ID, the master's trivial answers, an orphaned child, concurrent lookups (an answer is the mapping or -1), block_less_callback. Directed ID sets whose numbers are also addresses other nodes are given; a foreign poll heard while re-joining; two leaves that swap addresses (release, release, re-join in the swapping order) with a third node sending to both before and after. A single relay below a full master: its address verification fails once (master busy right after the lease) before a child needs it; it gives its address up and its only child re-joins meanwhile.")
REQUIRED = {"join_result": 60, "address_distinct_and_recorded": 25, "lookup_codes": 150,
            "mesh_send_arrives": 30, "release_and_rejoin": 15, "check_connection": 60,
            "master_table_invariant": 2000}
BUDGET = {"quick": 600, "thorough": 2400}


def gen_cases(ctx):
    yield from gen_directed(ctx)
    yield from gen_single_relay(ctx)
    yield from _gen_cases(ctx)


def _gen_cases(ctx):
    rng = ctx.sub_rng("c17")
    n = 40 if ctx.tier == "quick" else 4000
    for i in range(n):
        hostile = i % 8 == 7
        nj = rng.choice([1, 2, 3, 4, 6, 7, 9, 12]) if not hostile else rng.choice([2, 4, 6])
        # half of the scenarios use small IDs: node IDs and logical addresses share the small
        # integers (1..5, 9..13, ...), which is where ID/address mix-ups show
        ids = rng.sample(range(1, 256), nj) if i % 2 else rng.sample(range(1, 30), nj)
        base = rng.choice([15000, 40000, 80000, 150000])
        profs = {}
        for k in [0] + ids:
            b = base if not hostile else rng.choice([15000, 300000])
            profs[str(k)] = N.rand_profile(rng, base=b)
        deep = (i % 5 == 3) and not hostile
        if deep:
            nj = rng.choice([8, 10, 12])
            ids = rng.sample(range(1, 256), nj) if i % 2 else rng.sample(range(1, 30), nj)
            for k in [0] + ids:
                profs[str(k)] = N.rand_profile(rng, base=base)
        yield {"deep": deep, "dup": (i % 3 == 1) and not deep and not hostile,
               "swap": i % 4 == 2 and not deep and not hostile and not ((i % 2 == 0) and nj >= 6) and nj >= 3,
               "orphan": (i % 2 == 0) and not deep and not hostile and nj >= 6,
               "conc": not deep and not hostile and nj >= 3,
               "ids": ids, "offsets": {str(k): rng.choice([0, 0, rng.randrange(0, 2000)]) for k in ids},
               "no_children": [k for k in ids if rng.random() < 0.15] if not deep else [],
               "cls": {str(k): rng.choice(["meshnm", "meshnm", "mesh"]) for k in ids},
               "profiles": profs, "hostile": hostile, "seed": rng.getrandbits(30),
               # the timeout has to leave room for the protocol's own pace (55 ms poll + 225 ms per
               # refusing contact, one level per attempt): 12 concurrent joiners need 2.4-4.1 s
               "timeout": 15.0 if deep or nj >= 9 else (7.5 if nj >= 5 else rng.choice([3.0, 7.5])), "unknown_id": rng.choice([k for k in range(1, 256) if k not in ids])}


def gen_directed(ctx):
    """IDs that are numerically equal to addresses other nodes will be given (ID 3 joins first, a
    later joiner gets address 0o3, ...), joining one after the other, with and without children
    allowed - every lookup clause then meets numbers that are both an ID and an address"""
    rng = ctx.sub_rng("c17d")
    for k, all_ids in enumerate(([3, 70, 90, 120], [2, 1, 200, 201], [5, 4, 3, 2, 1], [9, 10, 77, 78, 79, 80, 81],
                             [4, 100, 3, 101, 2], [1, 9, 17, 25, 33, 41])):
        for nc in (True, False):
            ids = list(all_ids[:5] if nc else all_ids)  # (the master has five slots; nobody else takes children)
            profs = {str(x): N.rand_profile(rng, base=40000) for x in [0] + ids}
            yield {"deep": False, "dup": False, "orphan": False, "conc": len(ids) >= 3, "ids": ids,
                   "offsets": {str(x): 400 * j for j, x in enumerate(ids)},
                   "no_children": list(ids) if nc else [], "cls": {str(x): ["meshnm", "mesh"][(x + k) % 2] for x in ids},
                   "profiles": profs, "hostile": False, "seed": rng.getrandbits(30), "timeout": 7.5,
                   "unknown_id": 250, "swap": not nc}


def gen_single_relay(ctx):
    """four level-1 nodes that take no children, ONE node R that does, and a node C that can only
    live below R.  (a) the master's application is busy for 400 ms right after it leased R its
    address, so that R's verification of the new address fails once and R asks again; C joins
    afterwards - R must accept children as before.  (b) the orphan phase: R gives its address up,
    C notices and re-joins while R is away (a level-1 slot is free now), then R comes back."""
    rng = ctx.sub_rng("c17r")
    for ids, r_id in (([11, 12, 13, 14, 20, 30], 20), ([20, 11, 12, 13, 14, 30], 20), ([3, 4, 1, 2, 5, 9], 5)):
        for stall in (None, 400, 320):
            for orphan in (True, False):
                if stall is None and not orphan:
                    continue
                profs = {str(x): N.rand_profile(rng, base=40000) for x in [0] + ids}
                yield {"deep": False, "dup": False, "orphan": orphan, "conc": False, "ids": list(ids),
                       "offsets": {str(x): 400 * j for j, x in enumerate(ids)},
                       "no_children": [x for x in ids[:5] if x != r_id], "cls": {str(x): ["meshnm", "mesh"][x % 2] for x in ids},
                       "profiles": profs, "hostile": False, "seed": rng.getrandbits(30), "timeout": 7.5,
                       "unknown_id": 250, "swap": False,
                       "master_stall": {"id": r_id, "ms": stall} if stall else None, "fam": "single-relay"}


def run_case(ctx, case):
    net = N.Net(seed=case["seed"])
    try:
        _run(ctx, case, net)
    finally:
        net.close()


def _run(ctx, case, net):
    hostile = case["hostile"]
    ids = case["ids"]
    master = net.add("mesh", ("id", 0), profile=case["profiles"]["0"])
    cbcount = [0]
    joiners = {}
    for k in ids:
        nn = net.add(case["cls"][str(k)], ("id", k), profile=case["profiles"][str(k)])
        if k in case["no_children"]:
            nn.obj.allow_children = False
        if k % 2:
            # the documented hook that is called while the node blocks in renew / lookups
            def cb(k=k):
                cbcount[0] += 1
            nn.obj.block_less_callback = cb
        joiners[k] = nn
    fake = {}
    if case.get("deep"):
        # leases of absent nodes (fake IDs >= 1000) leave a narrow tree: 1 slot on level 1, two
        # under every node below it -> 12 joiners reach levels 3 and 4 through level-2/3 relays
        fid = 1000
        for a in (0o1, 0o2, 0o3, 0o4):
            fake[fid] = a
            fid += 1
        parents = [0o5]
        for lvl in (1, 2, 3):
            nxt = []
            for p in parents:
                for c in (3, 4):
                    fake[fid] = p | (c << (3 * lvl))
                    fid += 1
                nxt += [p | (1 << (3 * lvl)), p | (2 << (3 * lvl))]
            parents = nxt
        for k, a in fake.items():
            master.obj.set_address(k, a)
    if hostile:
        frng = random.Random(case["seed"] ^ 0x17)
        net.air.collisions = True
        net.air.fault = lambda pkt, rx: frng.random() < 0.06
    tinv = {"n": 0, "bad": None}

    def mon(nn, op, outcome):
        if nn is master:
            tinv["n"] += 1
            t = nn.obj.dhcp_dict
            vals = list(t.values())
            if len(set(vals)) != len(vals) and tinv["bad"] is None:
                tinv["bad"] = "two IDs share an address: %r" % {k: oct(v) for k, v in t.items()}
            for k, v in t.items():
                if (not net_ref.is_node_address(v) or v in (0, 0o4444)) and tinv["bad"] is None:
                    tinv["bad"] = "ID %d holds %s" % (k, oct(v))
        why = N.listening_invariant(nn)
        if why:
            ctx.cross_obs("C07", "not-listening-after-" + op, "%s: %s" % (nn.key, why))
    net.on_return.append(mon)
    world = net.world
    res = {k: {} for k in ids}
    T = case["timeout"]
    t0 = max([world.now] + [nn.wnode.t for nn in net.nodes])
    order = list(ids)
    rel = [k for i, k in enumerate(order) if i % 3 == 0][:3]
    # dynamic barriers: phase 2 starts when every joiner has returned from renew_address();
    # inside phases 2 and 3 the nodes act strictly one at a time ("turn")
    st = {"joined": 0, "turn2": 0, "turn3": 0, "done": 0, "conc_done": 0, "p5_arrived": 0, "p5_roles": None, "p5": -1}
    end_cap = t0 + int((2.0 + T + 2.0) * 1e9) + len(order) * 4000 * W.MS + len(rel) * int((2 * T + 8.0) * 1e9) + int((2 * T + 12.0) * 1e9) \
        + (int((2 * T + 14.0) * 1e9) if case.get("swap") else 0)
    applog = {k: joiners[k].applog for k in ids}
    world.horizon = end_cap + 10 * 1000 * W.MS

    def pump_while(nn, cond):
        wn = nn.wnode
        while cond() and wn.t < end_cap:
            net.pump_idle(nn)
            net.wait(nn, 2 * W.MS)

    def pump_until(nn, t_abs):
        wn = nn.wnode
        while wn.t < t_abs:
            net.pump_idle(nn)
            net.wait(nn, min(t_abs - wn.t, 2 * W.MS))

    def wait_quiet(nn, gap=30 * W.MS, cap=3000 * W.MS):
        """phases 2 and 3 act on a quiet network (one thing at a time): left-over traffic of the
        previous node's step (replies still being routed towards 0o4444, relays retrying) is
        allowed to drain first; only the joins of phase 1 are concurrent"""
        wn = nn.wnode
        t_cap = wn.t + cap
        while wn.t < t_cap:
            last = net.air.log[-1].t1 if net.air.log else 0
            if wn.t - last >= gap:
                return
            pump_until(nn, min(max(last + gap, wn.t + W.MS), t_cap))
        ctx.count("quiet_wait_capped")

    mres = {}

    def master_app(nn):
        stall = case.get("master_stall")
        if stall:
            # the master's application is busy with something else for a while right after the
            # lease of one particular ID was recorded (it does not call update() meanwhile)
            pump_while(nn, lambda: st["done"] < len(ids) and stall["id"] not in nn.obj.dhcp_dict)
            if stall["id"] in nn.obj.dhcp_dict:
                nn.wnode.idle(stall["ms"] * W.MS)
                ctx.count("master_application_stalls_after_a_lease")
        pump_while(nn, lambda: st["done"] < len(ids))
        pump_until(nn, nn.wnode.t + 30 * W.MS)
        # the documented trivial answers of the master itself
        mres["cc"] = net.call(nn, "check_connection", nn.obj.check_connection, deadline_ms=1000)
        mres["renew"] = net.call(nn, "renew_address", nn.obj.renew_address, 0.05, deadline_ms=1000)
        mres["addr"] = nn.obj.node_address
        world.stopping = True

    def joiner_app(nn, k):
        o = nn.obj
        wn = nn.wnode
        r = res[k]
        if case.get("deep"):
            # deep narrow trees are joined one node at a time: concurrent joins through level-2/3
            # relays congest the master (it waits out route_timeout per relayed reply), which is a
            # throughput matter outside the property's quantifier
            me0 = order.index(k)
            pump_while(nn, lambda: st["joined"] < me0)
            pump_until(nn, wn.t + 20 * W.MS)
        else:
            wn.idle(case["offsets"][str(k)] * W.MS)
        t_start = wn.t
        try:
            r["join"] = net.call(nn, "renew_address", o.renew_address, T, deadline_ms=(T + 2.5) * 1000)
        except W.VirtualDeadline:
            r["join"] = "no return"
        r["join_ms"] = (wn.t - t_start) / 1e6
        r["t_start"], r["t_end"] = t_start, wn.t
        r["addr_after_join"] = o.node_address
        st["joined"] += 1
        me = order.index(k)
        pump_while(nn, lambda: st["joined"] < len(ids))
        if case.get("conc"):
            # ---- every connected node asks the master about other IDs AT THE SAME TIME (relays are
            # asking while they pass their children's lookups along); an answer is the mapping or -1
            if r["join"] not in (None, "no return"):
                pump_until(nn, wn.t + (k % 7) * 300 * W.US)
                tab = {a: b for a, b in master.obj.dhcp_dict.items() if a < 1000}
                others = [j for j in ids if j != k and res[j].get("join") not in (None, "no return")]
                r["conc"] = []
                for t_ in range(4):
                    if others:
                        tgt = others[(me * 3 + t_) % len(others)]
                        try:
                            v = net.call(nn, "lookup_address", o.lookup_address, tgt, deadline_ms=2000)
                        except W.VirtualDeadline:
                            v = "no return"
                        r["conc"].append((tgt, v, tab.get(tgt)))
            st["conc_done"] += 1
            pump_while(nn, lambda: st["conc_done"] < len(ids))
            pump_until(nn, wn.t + 20 * W.MS)
        pump_while(nn, lambda: st["turn2"] != me)
        pump_until(nn, wn.t + 10 * W.MS)
        wait_quiet(nn)
        if r["join"] not in (None, "no return"):
            try:
                others = [j for j in ids if j != k and res[j].get("join") not in (None, "no return")]
                tgt = others[0] if others else None
                r["table_at_lookup"] = {a: b for a, b in master.obj.dhcp_dict.items() if a < 1000}
                r["lk_own"] = net.call(nn, "lookup_address", o.lookup_address, k, deadline_ms=2000)
                r["lk_other"] = (tgt, net.call(nn, "lookup_address", o.lookup_address, tgt, deadline_ms=2000)) if tgt else None
                r["lk_unknown"] = net.call(nn, "lookup_address", o.lookup_address, case["unknown_id"], deadline_ms=2000)
                r["lk_zero"] = (o.lookup_address(0), o.lookup_address(None), o.lookup_node_id(None), o.lookup_node_id(0))
                r["lkid_own"] = net.call(nn, "lookup_node_id", o.lookup_node_id, o.node_address, deadline_ms=2000)
                r["lkid_unknown"] = net.call(nn, "lookup_node_id", o.lookup_node_id, 0o5555 if 0o5555 not in
                                             master.obj.dhcp_dict.values() else 0o5554, deadline_ms=2000)
                r["table_after_lookup"] = {a: b for a, b in master.obj.dhcp_dict.items() if a < 1000}
                r["cc"] = net.call(nn, "check_connection", o.check_connection, deadline_ms=3000)
                own_payload = bytes([k, k]) + b"to-myself"
                r["send_self"] = (own_payload, net.call(nn, "send", o.send, k, "S", own_payload, deadline_ms=3000))
                pump_until(nn, wn.t + 5 * W.MS)
                r["sends"] = []
                tab_now = master.obj.dhcp_dict
                # targets on as many different levels as possible (deepest first)
                pick = sorted(others, key=lambda j: (-net_ref.level(tab_now.get(j, 0)), j))
                seen_l, tg = set(), []
                for j in pick:
                    l = net_ref.level(tab_now.get(j, 0))
                    if l not in seen_l or len(tg) < 3:
                        seen_l.add(l)
                        tg.append(j)
                for ti_, tgt2 in enumerate(tg[:5]):
                    payload = bytes([k, tgt2]) + b"mesh-send"  # single frame: fragmented multi-hop is C05's known finding
                    if ti_ == 0:
                        # two messages of the same type to the same node back to back, while that node's
                        # application is slow to read: both must arrive
                        joiners[tgt2].lazy_ns = 60 * W.MS
                        joiners[tgt2].last_drain = joiners[tgt2].wnode.t
                        p2 = bytes([k, tgt2]) + b"second-one"
                        r["sends"].append((tgt2, payload, net.call(nn, "send", o.send, tgt2, "M", payload, deadline_ms=3000)))
                        r["sends"].append((tgt2, p2, net.call(nn, "send", o.send, tgt2, "M", p2, deadline_ms=3000)))
                        pump_until(nn, wn.t + 80 * W.MS)
                        joiners[tgt2].lazy_ns = 0
                        pump_until(nn, wn.t + 10 * W.MS)
                        continue
                    r["sends"].append((tgt2, payload, net.call(nn, "send", o.send, tgt2, "M", payload, deadline_ms=3000)))
                    pump_until(nn, wn.t + 15 * W.MS)
            except W.VirtualDeadline:
                r["phase2"] = "no return"
        else:
            r["cc"] = net.call(nn, "check_connection", o.check_connection, deadline_ms=3000)
        st["turn2"] += 1
        if k in rel:
            pump_while(nn, lambda: st["turn2"] < len(ids) or st["turn3"] != rel.index(k))
            pump_until(nn, wn.t + 10 * W.MS)
            wait_quiet(nn)
            has_kids = any(net_ref.is_descendant(v, o.node_address) for v in master.obj.dhcp_dict.values())
            # releasing a node that relays for others would orphan them (outside the property)
            if r["join"] not in (None, "no return") and not has_kids:
                try:
                    old = o.node_address
                    r["release"] = net.call(nn, "release_address", o.release_address, deadline_ms=3000)
                    r["addr_after_release"] = o.node_address
                    pump_until(nn, wn.t + 20 * W.MS)
                    r["lease_after_release"] = master.obj.dhcp_dict.get(k)
                    if case.get("dup"):
                        # a late copy of another node's old address request reaches the master now
                        # that a higher slot below the same parent is free (copies of a request are
                        # produced by the protocol itself: every node of the contact's level hears
                        # and routes it); the lease the node lives on must not move
                        par = net_ref.parent(old)
                        sh = 3 * net_ref.level(par)
                        cands = [j for j, a in master.obj.dhcp_dict.items() if j in joiners and j != k
                                 and net_ref.level(a) == net_ref.level(old) and net_ref.parent(a) == par
                                 and (a >> sh) & 7 < (old >> sh) & 7 and joiners[j].obj.node_address == a]
                        if cands:
                            frame = net_ref.pack_header(0o4444 if par == 0 else par, 0, 0x7777, 195, cands[0])
                            master.radio.inject_rx(0 if par == 0 else 1, frame)
                            ctx.count("duplicate_requests_injected")
                            pump_until(nn, wn.t + 250 * W.MS)
                            wait_quiet(nn)
                    r["cc_after_release"] = net.call(nn, "check_connection", o.check_connection, deadline_ms=3000)
                    if case.get("dup"):
                        # while it looks for a contact again, the node hears ANOTHER unassigned node's
                        # poll (thorough run #8 met this with several nodes joining at once)
                        net.world.at(wn.t + 15 * W.MS, nn.radio.inject_rx, 0, net_ref.pack_header(0o4444, 0o100, 0x7778, 194, 0))
                        ctx.count("foreign_polls_heard_while_unassigned")
                    r["rejoin"] = net.call(nn, "renew_address", o.renew_address, T, deadline_ms=(T + 2.5) * 1000)
                    if r["rejoin"] is not None and not has_kids:
                        # the master expires the lease (its public release_address(address)): the
                        # node, asking about itself, must learn it (documented code -2 / False)
                        pump_until(nn, wn.t + 20 * W.MS)
                        wait_quiet(nn)
                        r["cc_pm_before"] = net.call(nn, "check_connection", o.check_connection, 1, True, deadline_ms=3000)
                        r["expired"] = master.obj.release_address(o.node_address)
                        r["lk_own_expired"] = net.call(nn, "lookup_address", o.lookup_address, k, deadline_ms=2000)
                        r["cc_pm_expired"] = net.call(nn, "check_connection", o.check_connection, 1, True, deadline_ms=3000)
                        r["rejoin2"] = net.call(nn, "renew_address", o.renew_address, T, deadline_ms=(T + 2.5) * 1000)
                    r["old"] = old
                except W.VirtualDeadline:
                    r["phase3"] = "no return"
            st["turn3"] += 1
        if case.get("orphan"):
            # ---- phase 4: a relay gives its address up; its child asks whether it is still
            # connected (its parent no longer answers: documented False), then both re-join
            pump_while(nn, lambda: st["turn2"] < len(ids) or st["turn3"] < len(rel))
            if order.index(k) == 0:
                pump_until(nn, wn.t + 30 * W.MS)
                wait_quiet(nn)
                tab = {j: a for j, a in master.obj.dhcp_dict.items() if j in joiners and joiners[j].obj.node_address == a}
                pick = None
                for rj, ra in sorted(tab.items()):
                    kids = [xj for xj, xa in tab.items() if xa != ra and net_ref.parent(xa) == ra]
                    leaf_kids = [xj for xj in kids if not any(net_ref.is_descendant(v, tab[xj]) and v != tab[xj] for v in tab.values())]
                    if leaf_kids:
                        pick = (rj, leaf_kids[0])
                        break
                st["p4"] = pick
                st["p4_stage"] = 0 if pick else 3
            pump_while(nn, lambda: "p4_stage" not in st)
            pick = st.get("p4")
            try:
                if pick and k == pick[0]:
                    r["p4_release"] = net.call(nn, "release_address", o.release_address, deadline_ms=3000)
                    pump_until(nn, wn.t + 30 * W.MS)
                    st["p4_stage"] = 1
                    pump_while(nn, lambda: st["p4_stage"] < 2)
                    r["p4_rejoin"] = net.call(nn, "renew_address", o.renew_address, T, deadline_ms=(T + 2.5) * 1000)
                    st["p4_stage"] = 3
                elif pick and k == pick[1]:
                    pump_while(nn, lambda: st["p4_stage"] < 1)
                    wait_quiet(nn)
                    r["p4_cc_orphan"] = net.call(nn, "check_connection", o.check_connection, 2, deadline_ms=3000)
                    r["p4_rejoin"] = net.call(nn, "renew_address", o.renew_address, T, deadline_ms=(T + 2.5) * 1000)
                    st["p4_stage"] = 2
            except W.VirtualDeadline:
                r["phase3"] = "no return"
                st["p4_stage"] = 3
            pump_while(nn, lambda: st["p4_stage"] < 3)
        if case.get("swap"):
            # ---- phase 5: two leaf nodes below the master give their addresses up and come back in
            # the order that makes them SWAP addresses (the master hands out the highest free child
            # number first); a third node that sent to one of them before sends to both again -
            # "a message sent to its node ID arrives at that node", wherever the node lives now
            st["p5_arrived"] += 1
            if st["p5_arrived"] == len(ids):
                tab = {a: b for a, b in master.obj.dhcp_dict.items() if a in joiners and joiners[a].obj.node_address == b}
                leaves = sorted((b, a) for a, b in tab.items() if net_ref.level(b) == 1
                                and not any(net_ref.is_descendant(v, b) for v in tab.values() if v != b))
                rest = [a for a in tab if a not in [x[1] for x in leaves[-2:]]]
                st["p5_roles"] = (rest[0], leaves[-1][1], leaves[-2][1]) if len(leaves) >= 2 and rest else ()
                st["p5"] = 0 if st["p5_roles"] else 6
            pump_while(nn, lambda: st["p5_roles"] is None)
            roles = st["p5_roles"]
            if roles and k in roles:
                s_, a_, b_ = roles
                for stepno in {s_: [0, 5], a_: [1, 4], b_: [2, 3]}[k]:
                    pump_while(nn, lambda: st["p5"] != stepno)
                    pump_until(nn, wn.t + 10 * W.MS)
                    wait_quiet(nn)
                    try:
                        if stepno == 0:
                            p1 = bytes([k, a_]) + b"before-the-swap"
                            r.setdefault("sends", []).append((a_, p1, net.call(nn, "send", o.send, a_, "M", p1, deadline_ms=3000)))
                        elif stepno in (1, 2):
                            r["p5_old"] = o.node_address
                            r["p5_release"] = net.call(nn, "release_address", o.release_address, deadline_ms=3000)
                        elif stepno in (3, 4):
                            r["p5_rejoin"] = net.call(nn, "renew_address", o.renew_address, T, deadline_ms=(T + 2.5) * 1000)
                            if r["p5_rejoin"] is not None and r["p5_rejoin"] != r["p5_old"]:
                                ctx.count("nodes_back_on_another_address")
                        else:
                            for tg_ in (a_, b_):
                                p2 = bytes([k, tg_]) + b"after-the-swap"
                                r["sends"].append((tg_, p2, net.call(nn, "send", o.send, tg_, "M", p2, deadline_ms=3000)))
                                pump_until(nn, wn.t + 5 * W.MS)
                    except W.VirtualDeadline:
                        r["phase3"] = "no return"
                    st["p5"] += 1
            pump_while(nn, lambda: st["p5"] < 6)
            pump_until(nn, wn.t + 20 * W.MS)
        st["done"] += 1
        pump_while(nn, lambda: not world.stopping)

    for nn in net.nodes:
        nn.wnode.t = t0
    world.spawn(master.wnode, master_app, master, daemon=True)
    for k in ids:
        world.spawn(joiners[k].wnode, joiner_app, joiners[k], k, daemon=True)
    if not world.run(wall_timeout=280):
        ctx.count("watchdog_inconclusive")
        return
    # final drain of what is still queued
    for nn in net.nodes:
        world.bind(nn.wnode)
        try:
            net.drain(nn, force=True)
        except BaseException:  # noqa: BLE001
            pass
        W.World.unbind()
    ctx.clause("master_table_invariant", tinv["n"])
    ctx.count("baton_switches", world.n_switches)
    ctx.count("block_less_callbacks", cbcount[0])
    ctx.count("air_packets", len(net.air.log))
    ctx.distinct("air_order_digests", net.air_digest())
    for st in net.radio_states():
        ctx.distinct("radio_states", st)
    # ---- exceptions / termination: judged on every medium
    for nn in net.nodes:
        e = nn.wnode.exc
        if e is not None and not isinstance(e, W.StopNode):
            ctx.violation("exception-in-node/%s" % type(e).__name__,
                          "node %r (%s): %r" % (nn.key, nn.kind, e), case)
            return
    if tinv["bad"]:
        ctx.violation("master-table-invariant", tinv["bad"], case)
        return
    # ---- the mesh's own traffic (polls, address requests/responses, lookups) stays below the application
    if not hostile:
        ctx.clause("no_system_frames_in_application")
        for nn in net.nodes:
            for e in nn.applog:
                if e["type"] > 127:
                    ctx.violation("system-frame-handed-to-application", "node %r (at %s) read a type-%d frame from %s "
                                  "out of its queue" % (nn.key, oct(nn.obj.node_address), e["type"], oct(e["from"])), case)
                    return
    if mres:
        ctx.clause("master_trivial_answers")
        if mres.get("cc") is not True or mres.get("renew") != 0 or mres.get("addr") != 0:
            ctx.violation("master-trivial-answers", "on the master check_connection() = %r (documented True), "
                          "renew_address() = %r (0), node_address %s" % (mres.get("cc"), mres.get("renew"),
                                                                          oct(mres.get("addr", 0))), case)
            return
    # ---- the C13 clause seen in mesh traffic: a routed frame of an acknowledged type (65..191)
    # is answered with a NETWORK_ACK "back to the origin", i.e. to header.from_node - so a frame
    # the master originates (bytes never seen on the air before) must name the master there
    seen_bytes = set()
    for p in net.air.log:
        if p.kind != "data" or len(p.payload) < 8:
            continue
        pl = bytes(p.payload)
        if pl in seen_bytes:
            continue
        seen_bytes.add(pl)
        if p.src is not master.radio:
            continue
        h = net_ref.unpack_header(pl)
        if 65 <= h["type"] <= 191 and h["to"] not in (0o4444, 0o100):
            ctx.clause("master_frames_name_master_as_origin")
            if h["from"] != 0:
                ctx.violation("ack-typed-frame-with-foreign-origin", "the master originated a type-%d frame "
                              "for %s whose header names %s as origin: the NETWORK_ACK for it goes there "
                              "instead of back to the master (which waits out route_timeout)"
                              % (h["type"], oct(h["to"]), oct(h["from"])), case)
                return
    table = dict(master.obj.dhcp_dict)
    for k in ids:
        r = res[k]
        ctx.clause("join_result")
        if r.get("join") == "no return" or r.get("phase2") == "no return" or r.get("phase3") == "no return":
            ctx.violation("call-does-not-return", "ID %d: %r" % (k, {a: b for a, b in r.items() if b == "no return"}), case)
            return
        j = r.get("join")
        if j is not None and (not net_ref.is_node_address(j) or j in (0, 0o4444)):
            ctx.violation("join-invalid-address", "ID %d renew_address() returned %r" % (k, j), case)
            return
        # "within the given timeout" is claimed on the loss-free medium only; the driver looks at
        # the clock between attempts, so a call may overshoot by the attempt that was running:
        # pause (<=105 ms) + poll (55 ms) + 4 contacts x 225 ms + the two verifying lookups
        if not hostile and r.get("join_ms", 0) > case["timeout"] * 1000 + 1500:
            ctx.violation("join-exceeds-timeout", "ID %d: renew_address(%s) took %.0f virtual ms"
                          % (k, case["timeout"], r["join_ms"]), case)
            return
        if not hostile and "t_start" in r:
            polls = [p.t0 for p in net.air.log if p.src is joiners[k].radio and p.kind == "data"
                     and r["t_start"] <= p.t0 <= r["t_end"] and len(p.payload) >= 8
                     and p.payload[6] == 194]
            ctx.count("join_attempts_observed", len(polls))
            if polls and max(polls) > r["t_start"] + int(case["timeout"] * 1e9) + 150 * W.MS:
                ctx.violation("join-attempt-after-timeout", "ID %d: renew_address(%s) started a new "
                              "poll %.0f ms after the call began" % (k, case["timeout"],
                                                                    (max(polls) - r["t_start"]) / 1e6), case)
                return
    if hostile:
        ctx.nontrivial((len(ids), "hostile"))
        return
    # ---- ideal medium: the full contract
    final_addr = {}
    for k in ids:
        r = res[k]
        if r.get("join") is None:
            ctx.violation("join-failed", "ID %d: renew_address(%s) returned None on a loss-free medium "
                          "(%d joiners, offsets %r, no_children %r)"
                          % (k, case["timeout"], len(ids), case["offsets"], case["no_children"]), case)
            return
        final_addr[k] = joiners[k].obj.node_address
    ctx.clause("address_distinct_and_recorded")
    conn = {k: a for k, a in final_addr.items() if a != 0o4444}
    if len(set(conn.values())) != len(conn):
        ctx.violation("duplicate-node-address", "connected nodes share an address: %r"
                      % {k: oct(a) for k, a in conn.items()}, case)
        return
    for k, a in conn.items():
        if table.get(k) != a:
            ctx.violation("address-not-recorded", "ID %d uses %s, master's table holds %r"
                          % (k, oct(a), table.get(k)), case)
            return
    for k in ids:
        r = res[k]
        if "lk_own" not in r:
            continue
        ctx.clause("lookup_codes")
        tab = r["table_at_lookup"]
        exp_own = tab.get(k, -2)
        bad = None
        if r["lk_own"] != exp_own:
            bad = "lookup_address(own id %d) = %r, table %r" % (k, r["lk_own"], exp_own)
        elif r["lk_other"] and r["lk_other"][1] != tab.get(r["lk_other"][0], -2):
            bad = "lookup_address(%d) = %r, table %r" % (r["lk_other"][0], r["lk_other"][1], tab.get(r["lk_other"][0]))
        elif r["lk_unknown"] != -2:
            bad = "lookup_address(unknown id %d) = %r, documented -2" % (case["unknown_id"], r["lk_unknown"])
        elif r["lk_zero"] != (0, 0, k, 0):
            bad = "trivial lookups (id 0, None, address None, address 0) = %r, documented (0, 0, %d, 0)" % (r["lk_zero"], k)
        elif r["lkid_own"] != k:
            bad = "lookup_node_id(own address) = %r, expected %d" % (r["lkid_own"], k)
        elif r["lkid_unknown"] != -2:
            bad = "lookup_node_id(unassigned address) = %r, documented -2" % (r["lkid_unknown"],)
        elif r["table_after_lookup"] != tab:
            bad = "lookups changed the master's table"
        if bad:
            ctx.violation("lookup/" + bad.split("(")[0].split()[0], "ID %d: %s" % (k, bad), case)
            return
        ctx.clause("check_connection")
        if r.get("cc") is not True:
            ctx.violation("check_connection/false-when-connected", "ID %d at %s: check_connection() = %r"
                          % (k, oct(r["addr_after_join"]), r.get("cc")), case)
            return
        for ci_, (tgt, v, exp) in enumerate(r.get("conc", [])):
            ctx.clause("concurrent_lookups")
            if v != exp and v != -1:
                # mechanism: the answer to one of this node's EARLIER questions that had timed out
                # (-1) arrives late and is taken for the answer to the current one - replies carry
                # nothing that ties them to a question
                # (an earlier question whose own call did not get its true answer - it timed out, or it
                # was itself given an even older answer - leaves that answer in flight)
                late = any(v0 != exp0 and exp0 == v for (_, v0, exp0) in r["conc"][:ci_])
                ctx.violation("lookup/concurrent" + ("/late-answer-to-an-earlier-question" if late else ""),
                              "ID %d: lookup_address(%d) while other nodes were asking too "
                              "returned %r, the master's table says %r (-1 = no answer would be acceptable); its "
                              "earlier questions in this phase: %r"
                              % (k, tgt, v, exp, r["conc"][:ci_]), case)
                if late:
                    continue
                return
            if v == -1:
                ctx.count("concurrent_lookups_unanswered")
        if "send_self" in r:
            ctx.clause("mesh_send_arrives")
            pl, ret = r["send_self"]
            got = [e for e in applog[k] if e["msg"] == pl]
            stray = [j for j in ids if j != k and any(e["msg"] == pl for e in applog[j])]
            if ret is not True or len(got) != 1 or stray:
                ctx.violation("mesh-send/own-id", "ID %d: send(node_id=own id) returned %r, arrived %d times in its own "
                              "queue and at IDs %r" % (k, ret, len(got), stray), case)
                return
        if "p4_cc_orphan" in r:
            ctx.clause("orphan_notices")
            if r["p4_cc_orphan"] is not False or r.get("p4_rejoin") is None:
                ctx.violation("check_connection/true-when-parent-gone", "ID %d: its parent released its address; "
                              "check_connection() = %r (expected False), re-join -> %r"
                              % (k, r["p4_cc_orphan"], r.get("p4_rejoin")), case)
                return
        if "p4_release" in r and (r["p4_release"] is not True or r.get("p4_rejoin") is None):
            ctx.violation("rejoin-failed", "ID %d (a relay): release_address() = %r, re-join -> %r"
                          % (k, r["p4_release"], r.get("p4_rejoin")), case)
            return
        for tgt, payload, ret in r.get("sends", []):
            ctx.clause("mesh_send_arrives")
            got = [e for e in applog[tgt] if e["msg"] == payload]
            stray = [j for j in ids if j != tgt and any(e["msg"] == payload for e in applog[j])]
            if ret is not True or len(got) != 1 or stray:
                mech = "/address-equals-sender-id" if r["table_at_lookup"].get(tgt) == k else ""
                ctx.violation("mesh-send" + mech, "ID %d (at %s) send(node_id=%d at %s) returned %r, arrived %d "
                              "times at the target and at IDs %r" % (k, oct(r["addr_after_join"]), tgt,
                                                                    oct(r["table_at_lookup"].get(tgt, 0)), ret, len(got), stray), case)
                return
        if "release" in r:
            ctx.clause("release_and_rejoin")
            if (r["release"] is not True or r["addr_after_release"] != 0o4444
                    or r["lease_after_release"] is not None or r["cc_after_release"] is not False):
                ctx.violation("release", "ID %d release_address() = %r, node_address %s, master lease %r, "
                              "check_connection %r" % (k, r["release"], oct(r["addr_after_release"]),
                                                       r["lease_after_release"], r["cc_after_release"]), case)
                return
            if r.get("rejoin") is None:
                ctx.violation("rejoin-failed", "ID %d could not re-join after release" % k, case)
                return
            if "cc_pm_expired" in r:
                ctx.clause("expired_lease_noticed")
                if (r["cc_pm_before"] is not True or r["expired"] is not True or r["lk_own_expired"] != -2
                        or r["cc_pm_expired"] is not False):
                    ctx.violation("expired-lease", "ID %d: check_connection(ping_master=True) = %r while leased; "
                                  "after the master released its address (%r): lookup_address(own id) = %r "
                                  "(documented -2), check_connection(ping_master=True) = %r (expected False)"
                                  % (k, r["cc_pm_before"], r["expired"], r["lk_own_expired"], r["cc_pm_expired"]), case)
                    return
                if r.get("rejoin2") is None:
                    ctx.violation("rejoin-failed", "ID %d could not re-join after its lease expired" % k, case)
                    return
    relay_used = any(net_ref.level(a) >= 2 for a in conn.values())
    ctx.count("nodes_on_level_%d" % max([net_ref.level(a) for a in conn.values()] or [0]))
    ctx.nontrivial((len(ids), relay_used, max([net_ref.level(a) for a in conn.values()] or [0]), case["profiles"]["0"]["spi_overhead"], bool(case["no_children"]),
                    tuple(sorted(case["cls"].values()))))
    ctx.sample({"ids": ids, "addresses": {k: oct(a) for k, a in conn.items()},
                "join_ms": {k: round(res[k].get("join_ms", 0)) for k in ids},
                "relay_used": relay_used, "air_packets": len(net.air.log),
                "baton_switches": world.n_switches})
