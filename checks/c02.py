"""C02 - send()/resend() report the true fate of the payload and always terminate.
DESIGN §4/C02.  Also used by C20 with the lite driver."""
import itertools
import random

from checks import linkcommon as L
from vsim import world as W
from vsim.radio import airtime_ns
from vsim.rig import Rig, repo

PROP = "C02"
RULE = ("a transmitting driver and a peer radio; a case = (mode: auto-ack | ask_no_ack | "
        "auto-ack off | ACK payloads, arc, ard, data rate, peer state, per-attempt loss pattern "
        "over {P packet lost, A ack lost, D delivered}, MCU cost profile, sequence of 1..4 calls "
        "of send(single|list)/resend with force_retry and send_only). Ground truth = the "
        "simulator's air log and PTX transaction record. Non-trivial: at least one attempt went "
        "on air; distinct = distinct (mode, arc, ard, call-sequence shape, loss pattern).")
RULE += (" Later rounds added: receiving phases between two transmissions (ACK payloads loaded and not consumed; left by role change, power-down or the end of a with block), plain listen round trips, and: resend() with an empty TX FIFO must leave the RX FIFO alone. A third of the cases run with some events masked from the IRQ pin (interrupt_config). The with block left and entered again between two calls (same object / another object on the chip in between), or left and the radio powered up by hand.")
REQUIRED = {"return_truth": 800, "attempt_count": 100, "no_leak": 800, "termination": 800,
            "ack_payload": 50, "resend_payload": 50, "resend_empty": 20}
ASSUMPTIONS = ["termination is judged as bounded progress on the virtual clock: the call must "
               "return before (1+force_retry)(1+arc)(ARD+airtime+260us)+50 SPI costs (+20%)",
               "ARD/data-rate combinations respect the documented constraint"]
BUDGET = {"quick": 480, "thorough": 900}


def _case(rng, **over):
    rate = rng.choice([1, 1, 2, 250])
    mode = rng.choice(["aa", "aa", "aa", "noack_flag", "aa0_off", "ackpl", "ackpl"])
    arc = rng.choice([0, 1, 2, 3, 5, 15])
    ard = rng.choice([250, 500, 750, 1500, 4000]) if rate != 250 else rng.choice([500, 1500, 2500])
    if mode == "ackpl":
        ard = max(ard, 1500 if rate == 250 else 500)
    c = {"mode": mode, "arc": arc, "ard": ard, "rate": rate,
         "peer": rng.choice(["listen"] * 6 + ["tx", "off"]),
         "peer_acks": rng.randrange(4) if mode == "ackpl" else 0,
         "pattern": "".join(rng.choice("PAD") for _ in range(rng.randrange(0, 12))),
         "default": rng.choice("DDP"),
         "profile": {"spi_overhead": rng.choice([15000, 40000, 120000, 300000]),
                     "spi_byte": 800, "pin": 3000, "timecall": 2000, "jitter": 0.3},
         "seed": rng.getrandbits(30), "calls": [], "kind": "full"}
    n = rng.randrange(1, 5)
    for _ in range(n):
        r = rng.random()
        if r < 0.55:
            c["calls"].append({"op": "send", "n": 1, "force_retry": rng.choice([0, 0, 1, 2, 3]),
                               "send_only": rng.random() < 0.4})
        elif r < 0.7:
            c["calls"].append({"op": "send", "n": rng.randrange(2, 4), "list": True,
                               "force_retry": rng.choice([0, 1]),
                               "send_only": rng.random() < 0.4})
        else:
            c["calls"].append({"op": "resend", "send_only": rng.random() < 0.4})
        if rng.random() < 0.25:
            c["calls"][-1]["before"] = rng.choice(["listen_round_trip", "listen_round_trip", "rx_phase", "rx_phase_power", "rx_phase_with", "fill_write_only", "fill_write_only"])
    rb = random.Random(c["seed"] ^ 0xB402)
    for call in c["calls"]:
        if "before" not in call and rb.random() < 0.15:
            # the `with` block is left and entered again between two calls (the same object, or
            # another object on the radio in between), or left and the radio powered up by hand
            call["before"] = rb.choice(["with_reentry", "with_other", "exit_power_on"])
    c.update(over)
    return c


def gen_cases(ctx, kind="full"):
    rng = ctx.sub_rng("c02", kind)
    modes = ["aa", "ackpl", "noack_flag"] if kind == "lite" else ["aa", "ackpl", "aa0_off", "noack_flag"]
    # exhaustive loss patterns for <= 6 attempts (arc <= 2, force_retry <= 1)
    maxlen = 4 if ctx.tier == "quick" else 6
    for arc, fr in [(0, 0), (1, 0), (0, 1), (2, 0), (1, 1), (2, 1)]:
        n = (1 + arc) * (1 + fr)
        if n > maxlen:
            continue
        for pat in itertools.product("PAD", repeat=n):
            for mode in ("aa", "ackpl"):
                for so in (False, True):
                    if mode == "aa" and so:
                        continue
                    yield _case(rng, mode=mode, arc=arc, ard=500, rate=1, peer="listen",
                                peer_acks=2 if mode == "ackpl" else 0, pattern="".join(pat),
                                default="D", kind=kind,
                                calls=[{"op": "send", "n": 1, "force_retry": fr, "send_only": so},
                                       {"op": "resend", "send_only": so},
                                       {"op": "send", "n": 1, "force_retry": 0, "send_only": so}])
    # structured: all lost, all ack-lost, first success at attempt k
    for arc in (0, 1, 3, 15):
        for fr in (0, 1, 2, 3):
            n = (1 + arc) * (1 + fr)
            ks = sorted({0, 1, arc, arc + 1, n - 1, n} if ctx.tier == "quick" else set(range(n + 1)))
            for k in ks:
                for letter in "PA":
                    for mode in ("aa", "ackpl"):
                        yield _case(rng, mode=mode, arc=arc, ard=rng.choice([250, 500, 1500]),
                                    rate=1, peer="listen", peer_acks=3 if mode == "ackpl" else 0,
                                    pattern=letter * k + "D", default="P", kind=kind,
                                    calls=[{"op": "send", "n": 1, "force_retry": fr,
                                            "send_only": False},
                                           {"op": "send", "n": 1, "force_retry": 0,
                                            "send_only": False},
                                           {"op": "resend", "send_only": False}])
    # ACK-payload histories: every sequence of send/resend x send_only x per-attempt outcome
    ops = [("send", False), ("send", True), ("resend", False), ("resend", True)]
    depth = 3 if ctx.tier == "quick" else 4
    for seq in itertools.product(ops, repeat=depth):
        if seq[0][0] == "resend":
            continue
        for pat in itertools.product("PAD", repeat=depth):
            calls = [({"op": "send", "n": 1, "force_retry": 0, "send_only": so} if op == "send"
                      else {"op": "resend", "send_only": so}) for op, so in seq]
            yield _case(rng, mode="ackpl", arc=0, ard=500, rate=1, peer="listen", peer_acks=3,
                        pattern="".join(pat), default="D", kind=kind, calls=calls)
    # all ARD values, peers not listening
    for ard in range(250, 4001, 250):
        yield _case(rng, mode="aa", arc=2, ard=ard, rate=1, peer=rng.choice(["tx", "off"]),
                    kind=kind, calls=[{"op": "send", "n": 1, "force_retry": 1, "send_only": False},
                                      {"op": "resend", "send_only": False}])
    # random call sequences
    for _ in range(1500 if ctx.tier == "quick" else 200000):
        c = _case(rng, kind=kind)
        if c["mode"] not in modes:
            c["mode"] = "aa"
        yield c


def deadline_ns(case, call, prof, plen=32):
    fr = call.get("force_retry", 0)
    per = case["ard"] * 1000 + airtime_ns(case["rate"], 5, plen, 2) + 260000
    n = call.get("n", 1)
    spi = prof["spi_overhead"] + 40 * prof["spi_byte"]
    return int(1.2 * (n * (1 + fr) * (1 + case["arc"]) * per + n * 50 * spi)) + 2 * W.MS


class Link:
    def __init__(self, case):
        m = repo()
        kind = case.get("kind", "full")
        self.kind = kind
        prof = W.Profile(**case["profile"])
        self.rig = Rig(seed=case["seed"], profile=prof)
        self.rt = self.rig.radio("dut")
        self.rr = self.rig.radio("peer")
        cls = m["rf24"].RF24 if kind == "full" else m["rf24_lite"].RF24
        self.tx = self.rig.driver(self.rt, cls=cls, flavour="bus" if kind == "lite" else "pin")
        self.rx = self.rig.driver(self.rr)
        for o in (self.tx, self.rx):
            o.data_rate = case["rate"]
            o.channel = 40
        self.tx.arc = case["arc"]
        self.tx.ard = case["ard"]
        mode = case["mode"]
        if mode == "aa0_off":
            self.tx.set_auto_ack(False, 0)
            self.rx.auto_ack = False
        if mode == "ackpl":
            self.tx.ack = True
            self.rx.ack = True
        self.rx.open_rx_pipe(1, b"\xB1\x55\x66\x77\x88")
        self.tx.open_tx_pipe(b"\xB1\x55\x66\x77\x88")
        if case["seed"] % 3 == 0 and hasattr(self.tx, "interrupt_config"):
            # which events pull the IRQ pin is the application's choice (it may poll instead):
            # what send()/resend() return and transmit does not depend on it
            sel = (case["seed"] // 3) % 4
            self.tx.interrupt_config(data_recv=sel != 0, data_sent=sel != 1, data_fail=sel not in (2, 3))
            self.irq_sel = sel
        self.tx.listen = False
        if case["peer"] == "listen":
            self.rx.listen = True
        elif case["peer"] == "tx":
            self.rx.listen = False
        else:
            self.rx.listen = True
            self.rx.power = False
        self.ack_ctr = 0
        self.rig.node.idle(400000)

    def refill_acks(self, n):
        """keep n ACK payloads queued at the peer (harness side)"""
        self.rr.rx_fifo.clear()
        if self.rr.flags & 0x40:
            self.rr.flags &= ~0x40
        have = len(self.rr.tx_fifo)
        while have < n:
            self.ack_ctr += 1
            self.rx.load_ack(b"ACK" + bytes([self.ack_ctr, have]), 1)
            have += 1

    def close(self):
        self.rig.close()


def run_case(ctx, case, prefix=""):
    link = Link(case)
    try:
        _run(ctx, case, link, prefix)
    finally:
        link.close()


def _run(ctx, case, link, prefix):
    rig, rt, rr, tx = link.rig, link.rt, link.rr, link.tx
    node = rig.node
    air = rig.air
    pattern, default = case["pattern"], case["default"]

    def letter(i):
        return pattern[i] if i < len(pattern) else default

    base_seq = rt.src_seq
    air.fault = lambda p, r: fault_shift(p, r)

    def fault_shift(pkt, rx):
        if pkt.kind == "data" and pkt.src is rt:
            return letter(pkt.src_seq - 1 - base_seq) == "P"
        if pkt.kind == "ack" and rx is rt:
            return letter(pkt.for_pkt.src_seq - 1 - base_seq) == "A"
        return False
    prng = random.Random(case["seed"] ^ 0xC02)
    ident = 0
    failed_payload = None  # payload expected at the head of the TX FIFO for resend()
    other = [None]
    onair_any = False
    mode = case["mode"]
    noack_mode = mode in ("noack_flag", "aa0_off")
    shape = []
    for ci, call in enumerate(case["calls"]):
        if mode == "ackpl" and case["peer"] == "listen":
            link.refill_acks(case["peer_acks"])
        else:
            rr.rx_fifo.clear()
        before = call.get("before")
        if before == "fill_write_only" and call["op"] == "send":
            # the documented non-blocking use: three payloads loaded without starting them, the
            # application looks at the radio once (update()), then changes its mind and send()s
            tx.ce_pin = False  # send() leaves CE high; with CE high a loaded payload starts at once
            for q in range(3):
                tx.write(b"queued-%d" % q, write_only=True)
            tx.update()
            failed_payload = None
            ctx.count("write_only_fills_before_send")
        elif before == "listen_round_trip":
            # a receiving phase between two transmissions (nothing received, no ACK payloads loaded)
            tx.listen = True
            node.idle(300000)
            tx.listen = False
            ctx.count("listen_round_trips_before_call")
        elif before in ("with_reentry", "with_other", "exit_power_on") and case.get("kind", "full") == "full":
            tx.__exit__(None, None, None)
            if before == "with_other":
                if other[0] is None:
                    other[0] = rig.driver(rt)  # a second driver object on the chip, constructed later
                    other[0].__exit__(None, None, None)
                with other[0]:
                    pass
            if before == "exit_power_on":
                tx.power = True
            else:
                tx.__enter__()
            ctx.count("with_block_boundaries_before_call")
        elif before and before.startswith("rx_phase") and mode == "ackpl":
            # a receiving phase in which ACK payloads were loaded but not consumed, left by a plain
            # role change, through power-down, or through the end of a `with` block
            tx.listen = True
            tx.load_ack(b"leftover-ack-1", 1)
            if case["seed"] % 3:  # one, or two, payloads are left over
                tx.load_ack(b"leftover-ack-0", 0)
            if before == "rx_phase_power":
                tx.power = False
            elif before == "rx_phase_with" and case.get("kind", "full") == "full":
                tx.__exit__(None, None, None)
                tx.__enter__()
            tx.listen = False
            failed_payload = None  # documented: leaving RX mode flushes the TX FIFO (ACK payloads)
            ctx.count("rx_phases_before_send")
        air0 = len(air.log)
        txn0 = len(rt.txn_log)
        t_call = node.t
        head_before = bytes(rt.tx_fifo[0].data) if rt.tx_fifo else None
        rx_before = [bytes(e[1]) for e in rt.rx_fifo]
        if call["op"] == "send":
            n = call.get("n", 1)
            bufs = []
            for _ in range(n):
                ident += 1
                bufs.append(bytes(L.make_payload(prng, prng.randrange(2, 33), ident)))
            arg = bufs if call.get("list") else bufs[0]
            expected_payloads = bufs
        else:
            bufs = []
            expected_payloads = [head_before] if head_before is not None else []
        node.deadline = node.t + deadline_ns(case, call, case["profile"])
        timed_out = False
        exc = None
        ret = None
        try:
            if call["op"] == "send":
                ret = tx.send(arg, ask_no_ack=(mode == "noack_flag"),
                              force_retry=call["force_retry"], send_only=call["send_only"])
            else:
                ret = tx.resend(send_only=call["send_only"])
        except W.VirtualDeadline:
            timed_out = True
        except Exception as e:  # noqa: BLE001
            exc = e
        node.deadline = None
        t_ret = node.t
        ctx.clause("termination")
        what = "%s#%d %r" % (call["op"], ci, {k: v for k, v in call.items() if k != "op"})
        if timed_out:
            ctx.violation(prefix + "non-termination/" + call["op"],
                          "%s did not return within its virtual deadline (mode=%s arc=%d ard=%d "
                          "pattern=%s/%s peer=%s)" % (what, mode, case["arc"], case["ard"], pattern,
                                                      default, case["peer"]), case)
            return
        if exc is not None:
            ctx.violation(prefix + "exception/" + call["op"], "%s raised %r" % (what, exc), case)
            return
        # let anything still in flight finish, then look at what was on air and when
        node.idle(int(1.3 * (1 + case["arc"]) * (case["ard"] * 1000 + 1600000)) + W.MS)
        pk = [p for p in air.log[air0:] if p.kind == "data" and p.src is rt]
        if pk:
            onair_any = True
        late = [p for p in pk if p.t0 > t_ret]
        inside = [p for p in pk if p.t0 <= t_ret]
        txns = rt.txn_log[txn0:]
        results = ret if call.get("list") else [ret]
        shape.append((call["op"], call.get("n", 1), call.get("force_retry"), call["send_only"]))
        # ---- clause: nothing but this call's own payload(s) on air
        ctx.clause("no_leak")
        foreign = [p for p in pk if bytes(p.payload) not in expected_payloads]
        if foreign:
            ctx.violation(prefix + "foreign-payload-on-air/" + call["op"],
                          "%s: packet(s) carrying %s on air, the call's own payloads are %s"
                          % (what, foreign[0].payload.hex(), [b.hex() for b in expected_payloads]),
                          case)
            return
        if late:
            ctx.violation(prefix + "transmission-continues-after-return/" + call["op"],
                          "%s returned %r at t=%d but %d packet(s) of its payload went on air "
                          "afterwards (first at t=%d)" % (what, ret, t_ret, len(late), late[0].t0),
                          case)
            return
        # ---- resend specifics
        if call["op"] == "resend":
            if head_before is None:
                ctx.clause("resend_empty")
                if ret is not False or pk:
                    ctx.violation(prefix + "resend-empty-fifo", "resend() with an empty TX FIFO "
                                  "returned %r, %d packets on air" % (ret, len(pk)), case)
                    return
                # "returning False when there is none": nothing to re-send, nothing to clean up -
                # what waits in the RX FIFO (an ACK payload the application has not read yet) stays
                if [bytes(e[1]) for e in rt.rx_fifo] != rx_before:
                    ctx.violation(prefix + "resend-empty-fifo/rx-fifo-lost", "resend() with an empty TX FIFO "
                                  "returned False and emptied the RX FIFO (%d payload(s) were waiting)"
                                  % len(rx_before), case)
                    return
                if rx_before:
                    ctx.count("resend_empty_with_rx_waiting")
                continue
            ctx.clause("resend_payload")
            if failed_payload is not None and head_before != failed_payload:
                ctx.violation(prefix + "resend-wrong-payload", "TX FIFO head %s is not the "
                              "payload that failed (%s)" % (head_before.hex(),
                                                            failed_payload.hex()), case)
                return
            if not pk:
                ctx.violation(prefix + "resend-nothing-transmitted",
                              "%s returned %r without any packet on air although payload %s "
                              "was waiting" % (what, ret, head_before.hex()), case)
                return
        if call.get("list") and (not isinstance(ret, list) or len(ret) != len(bufs)):
            ctx.violation(prefix + "list-result-shape", "%s returned %r" % (what, ret), case)
            return
        # ---- clause: truth of each result
        for payload, res in zip(expected_payloads, results):
            mine = [p for p in inside if bytes(p.payload) == payload]
            recs = [r for r in txns if r["payload"] == payload]
            acked = [r for r in recs if r["ok"]]
            ctx.clause("return_truth")
            fr = call.get("force_retry", 0)
            allowed = (1 + case["arc"]) * (1 + fr)
            if noack_mode:
                if res is not True or len(mine) != 1:
                    ctx.violation(prefix + "noack-result", "%s in no-ack mode returned %r with %d "
                                  "packets on air" % (what, res, len(mine)), case)
                    return
                continue
            if len(mine) > allowed:
                ctx.violation(prefix + "too-many-attempts", "%s: %d attempts on air, at most %d "
                              "allowed" % (what, len(mine), allowed), case)
                return
            if res is False:
                if acked:
                    ctx.violation(prefix + "false-but-acknowledged/" + call["op"],
                                  "%s returned False but the payload was delivered and "
                                  "acknowledged (attempt %d)" % (what, acked[0]["attempts"]), case)
                    return
                ctx.clause("attempt_count")
                if len(mine) != allowed:
                    ctx.violation(prefix + "false-before-all-retries/" + call["op"],
                                  "%s returned False after %d on-air attempts, configuration "
                                  "requires %d (arc=%d force_retry=%d)"
                                  % (what, len(mine), allowed, case["arc"], fr), case)
                    return
                failed_payload = payload
            else:
                if not acked:
                    ctx.violation(prefix + "true-but-unacknowledged/" + call["op"],
                                  "%s returned %r but no attempt was acknowledged (%d on air)"
                                  % (what, res, len(mine)), case)
                    return
                failed_payload = None
                if mode == "ackpl":
                    ctx.clause("ack_payload")
                    ackpl = acked[-1]["ack"]
                    if call["send_only"] or not ackpl:
                        want = True
                    else:
                        want = bytes(ackpl)
                    got = bytes(res) if isinstance(res, (bytes, bytearray)) else res
                    if got != want:
                        ctx.violation(prefix + "ack-payload-mismatch/" + call["op"],
                                      "%s returned %r, the acknowledging packet carried %r "
                                      "(send_only=%s)" % (what, res, ackpl, call["send_only"]),
                                      case)
                        return
                elif res is not True:
                    ctx.violation(prefix + "result-type", "%s returned %r" % (what, res), case)
                    return
        if call["op"] == "send" and results and results[-1] is not False:
            failed_payload = None
        if rt.san:
            ctx.violation(prefix + "sanitizer:" + rt.san[0][0], rt.san[0][1], case)
            return
    if onair_any:
        ctx.nontrivial((mode, case["arc"], case["ard"], case["peer"], tuple(shape), pattern,
                        default, case.get("kind")))
    ctx.sample({"mode": mode, "arc": case["arc"], "ard": case["ard"], "pattern": pattern,
                "default": default, "peer": case["peer"], "calls": case["calls"],
                "packets_on_air": len(air.log), "transactions": len(rt.txn_log)})
