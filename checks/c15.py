"""C15 - no received frame can crash a node or make it forward garbage. DESIGN §4/C15."""
import random

from refmodels import net_ref
from vsim import world as W
from vsim.radio import Phantom
from vsim.rig import Rig, repo

PROP = "C15"
RULE = ("(a) is_address_valid() compared with the reference predicate for all 65536 16-bit values "
        "and None (exhaustive); (b) frames injected into the radio RX FIFO of a node of every role "
        "(RoutingOnly, Network, MeshNoMaster unconnected/connected, Mesh master with 0/3/200 "
        "leases) on levels 0..4: all 256 types x lengths 0..24 x destination classes {self, child, "
        "descendant, parent side, multicast, 0o4444, invalid 12-bit, 13..16-bit} x origin classes, "
        "truncated/oversized mesh payloads, random 0..32-byte strings, 1..3 frames per update(); "
        "update() must return normally within frames x (2 tx bounds + 10 ms) of virtual time, and "
        "frames shorter than a header or with an invalid origin/destination must leave the queue "
        "and the air untouched; every frame the node transmits must be explained by a frame it "
        "received in that update() (passed along, its NETWORK_ACK, or the protocol's answer to that "
        "type) and the master's lease table may change only on address requests and releases. "
        "Non-trivial: the frame reached update(); distinct = (role, level, "
        "type, length, destination class, origin class).")
RULE += (" Later rounds added: every transmission must be explained by a received frame, the lease table may only change on requests/releases, node address and pipes are preserved, answer-worthy frames followed by frames that must be discarded, fragment pairs with system types, masters with exhausted slots / a table loaded from JSON, relaying nodes, nodes whose multicast level was re-assigned, complete fragment streams of 2..9 fragments, and the clause that whatever the application reads came from a received frame (queued_frames_were_received), a slow-to-handle frame (final-hop relay, failing relay, re-broadcast multicast) followed by a NETWORK_POLL in the same update(), an ID leased twice through different parents and then released from its new and its old address (either order, repeated, lookups in between).")
REQUIRED = {"predicate": 65537, "update_returns": 8000, "bounded_time": 8000,
            "invalid_dropped": 1500, "transmissions_explained": 8000, "lease_table_explained": 1500,
            "address_preserved": 8000, "queued_frames_were_received": 2000}
BUDGET = {"quick": 480, "thorough": 900}
EXHAUSTIVE = {"quick": "validity predicate over all 65536 values + None",
              "thorough": "validity predicate over all 65536 values + None"}

ROLES = ["router", "net", "meshnm_unconnected", "meshnm_connected", "master0", "master3", "master200",
         "masterfull", "net_relay", "masterloaded"]
ADDR_BY_LEVEL = {0: 0, 1: 0o3, 2: 0o23, 3: 0o423, 4: 0o1423}


def dest_of(cls, me, rng):
    lvl = net_ref.level(me)
    if cls == "self":
        return me
    if cls == "child":
        return (me | (rng.randrange(1, 6) << (3 * lvl))) if lvl < 4 else me
    if cls == "descendant":
        if lvl >= 3:
            return (me | (2 << (3 * lvl))) if lvl < 4 else me
        c = me | (rng.randrange(1, 6) << (3 * lvl))
        return c | (rng.randrange(1, 6) << (3 * (lvl + 1)))
    if cls == "parentside":
        return rng.choice([0, 0o1, 0o15, 0o5]) if me else 0o2
    if cls == "multicast":
        return 0o100
    if cls == "default":
        return 0o4444
    if cls == "invalid12":
        return rng.choice([0o6, 0o7, 0o70, 0o106, 0o1007, 0o7777, 0o20, 0o400])
    if cls == "wide":
        return rng.choice([0x1000 | 0o23, 0x8001, 0xFFFF, 0o11111, 0o111111, 0x2493])
    raise KeyError(cls)


DCLS = ["self", "child", "descendant", "parentside", "multicast", "default", "invalid12", "wide"]


def gen_cases(ctx):
    yield {"part": "predicate"}
    rng = ctx.sub_rng("c15")
    nblk = 260 if ctx.tier == "quick" else 12000
    for i in range(nblk):
        role = ROLES[i % len(ROLES)]
        lvl = (i // len(ROLES)) % 5
        if role.startswith("master"):
            lvl = 0
        frames = []
        for _ in range(60):
            r = rng.random()
            me = 0 if role.startswith("master") else (0o4444 if role == "meshnm_unconnected" else ADDR_BY_LEVEL[lvl])
            if r < 0.12:
                frames.append({"raw": bytes(rng.getrandbits(8) for _ in range(rng.randrange(0, 33))).hex()})
                continue
            dcls = rng.choice(DCLS)
            ocls = rng.choice(["valid", "valid", "valid", "default", "invalid", "self"])
            if r < 0.45:
                typ = rng.choice([128, 130, 131, 148, 149, 150, 193, 194, 195, 196, 197, 198])
            else:
                typ = rng.randrange(256)
            ln = rng.choice([0, 0, 1, 2, 3, 8, 23, 24, rng.randrange(0, 25)])
            frames.append({"to": dest_of(dcls, me, rng), "dcls": dcls, "ocls": ocls, "type": typ, "len": ln,
                           "reserved": rng.choice([0, 1, 2, 7, 255, rng.randrange(256)]),
                           "id": rng.getrandbits(16), "pipe": rng.randrange(6)})
        # some nodes had their multicast level re-assigned (to another level than their own)
        mlv = (lvl + 1 + i % 4) % 5 if role in ("router", "net", "net_relay", "meshnm_connected") and (i // 7) % 3 == 0 else None
        # ... and was then given another address (another level); fragmentation switched off on some
        readdr = (lvl + 2 + i % 3) % 5 if mlv is not None and i % 2 == 0 and role in ("router", "net", "net_relay") else None
        frag_off = (i // 3) % 4 == 1 and role in ("net", "net_relay", "meshnm_connected", "master0", "master3")
        yield {"part": "frames", "role": role, "level": lvl, "frames": frames, "mlevel": mlv, "readdr_level": readdr,
               "frag_off": frag_off,
               "seed": rng.getrandbits(30), "phantom": rng.random() < 0.85,
               "burst": rng.choice([1, 1, 2, 3])}
    yield from gen_followed_by_invalid(ctx)
    yield from gen_fragment_pairs(ctx)
    yield from gen_slow_then_poll(ctx)
    yield from gen_release_histories(ctx)
    yield from gen_lookups_of_loaded(ctx)
    # systematic: every type x a few lengths, for self-addressed and routed frames, master & node
    for role in ("master3", "net", "meshnm_connected", "router"):
        for dcls in ("self", "child", "parentside", "self/own-origin"):
            frames = []
            for typ in range(256):
                for ln in ((0, 2, 24) if ctx.tier == "quick" else range(0, 25, 3)):
                    frames.append({"to": None, "dcls": dcls.split("/")[0], "ocls": "self" if "/" in dcls else "valid",
                                   "type": typ, "len": ln,
                                   "reserved": typ % 7, "id": typ * 3, "pipe": 1 + typ % 5})
            for k in range(0, len(frames), 96):
                yield {"part": "frames", "role": role, "level": 0 if role == "master3" else 2,
                       "frames": frames[k:k + 96], "seed": k, "phantom": True, "burst": 1}
                if (k // 96) % 4 == 2 and role != "router":
                    yield {"part": "frames", "role": role, "level": 0 if role == "master3" else 2, "frag_off": True,
                           "frames": frames[k:k + 96], "seed": k, "phantom": True, "burst": 1}
                if role != "master3" and (k // 96) % 4 == 1:
                    yield {"part": "frames", "role": role, "level": 3, "mlevel": (k // 96) % 3,
                           "frames": frames[k:k + 96], "seed": k, "phantom": True, "burst": 1}


def gen_followed_by_invalid(ctx):
    """every frame kind that makes a node answer or keep state, followed IN THE SAME update() by a
    frame that must be discarded (too short / invalid origin / invalid destination / 16-bit
    value): the discarded frame must not disturb the handling of the first"""
    firsts = [128, 130, 131, 148, 149, 150, 193, 194, 195, 196, 197, 198, 0, 65]
    for role in ROLES:
        frames = []
        for typ in firsts:
            for second in ("short", "origin", "dest", "wide"):
                for ln in ((0, 2) if typ in (196, 198, 128) else (2,)):
                    frames.append({"to": None, "dcls": "multicast" if typ == 194 else "self", "ocls": "valid",
                                   "type": typ, "len": ln, "reserved": 9, "id": typ * 5 + ln, "pipe": 2})
                    if second == "short":
                        frames.append({"raw": "0200000011"})
                    elif second == "origin":
                        frames.append({"to": None, "dcls": "self", "ocls": "invalid", "type": 1, "len": 3,
                                       "reserved": 0, "id": 7, "pipe": 1})
                    elif second == "dest":
                        frames.append({"to": None, "dcls": "invalid12", "ocls": "valid", "type": 1, "len": 3,
                                       "reserved": 0, "id": 8, "pipe": 1})
                    else:
                        frames.append({"to": None, "dcls": "wide", "ocls": "valid", "type": 1, "len": 3,
                                       "reserved": 0, "id": 9, "pipe": 1})
        for k in range(0, len(frames), 64):
            yield {"part": "frames", "role": role, "level": 0 if role.startswith("master") else 2,
                   "frames": frames[k:k + 64], "seed": 77 + k, "phantom": True, "burst": 2}


def gen_slow_then_poll(ctx):
    """a frame whose handling takes time (the final-hop relay of an ack-typed message with its 2 ms
    pause and the NETWORK_ACK that follows, a relay to an absent child that fails after its retries,
    a multicast that a relaying node re-broadcasts) followed IN THE SAME update() by a NETWORK_POLL:
    the poll is answered after the node's slot delay whatever time the earlier frame took"""
    for role in ("router", "net", "net_relay", "meshnm_connected"):
        for level in (1, 2, 3, 4):
            for phantom in (True, False):
                frames = []
                for k, (typ, dcls) in enumerate(((65, "child"), (127, "child"), (100, "descendant"), (5, "child"),
                                                 (70, "multicast"), (190, "child"), (66, "parentside"))):
                    for npoll in (1, 2):
                        frames.append({"to": None, "dcls": dcls, "ocls": "valid", "type": typ, "len": 4 + k, "reserved": 0,
                                       "id": 300 + 2 * k + npoll, "pipe": 1 + k % 5})
                        for q in range(npoll):
                            frames.append({"to": None, "dcls": "multicast", "ocls": "default", "type": 194, "len": 0,
                                           "reserved": 0, "id": 400 + 4 * k + q, "pipe": 0})
                        while len(frames) % 3:
                            frames.append({"raw": "02"})  # (filler: a burst is three frames)
                yield {"part": "frames", "role": role, "level": level, "frames": frames, "seed": 90 + level,
                       "phantom": phantom, "burst": 3}


def gen_release_histories(ctx):
    """the same ID is leased an address twice through different parents (no release in between),
    then MESH_ADDR_RELEASE frames arrive from the new and from the old address in either order,
    repeated, with lookups of that ID and of both addresses in between: whatever the master keeps
    about an ID, none of these frames may make update() raise"""
    for role in ("master0", "master3", "masterloaded"):
        for vias in ((0o4444, 0o2), (0o2, 0o4444), (0o1, 0o2), (0o2, 0o15), (0o4444, 0o1, 0o2)):
            for order in ((-1, 0), (0, -1), (0, 0), (-1, -1), (0, -1, 0), (1, 0, -1)):
                for look in (False, True):
                    nid = 40 + len(vias) + (order[0] & 3)
                    frames = []
                    for v in vias:
                        frames.append({"to": 0, "dcls": "self", "ocls": "valid", "type": 195, "len": 0, "reserved": nid,
                                       "id": 600 + len(frames), "pipe": 0 if v == 0o4444 else 3, "fixed_origin": v})
                    for k in order:
                        if look:
                            frames.append({"to": 0, "dcls": "self", "ocls": "valid", "type": 196, "len": 1, "reserved": 0,
                                           "id": 620 + len(frames), "pipe": 2, "body_hex": "%02x" % nid, "fixed_origin": 0o3})
                            frames.append({"to": 0, "dcls": "self", "ocls": "valid", "type": 198, "len": 2, "reserved": 0,
                                           "id": 640 + len(frames), "pipe": 2, "body_hex": "0000", "origin_lease": [nid, k],
                                           "lookup_own_address": True})
                        frames.append({"to": 0, "dcls": "self", "ocls": "valid", "type": 197, "len": 0, "reserved": 0,
                                       "id": 660 + len(frames), "pipe": 4, "origin_lease": [nid, k]})
                    # ... and the ID asks once more afterwards
                    frames.append({"to": 0, "dcls": "self", "ocls": "valid", "type": 195, "len": 0, "reserved": nid,
                                   "id": 690, "pipe": 0, "fixed_origin": 0o4444})
                    yield {"part": "frames", "role": role, "level": 0, "frames": frames, "seed": 11 + len(vias),
                           "phantom": True, "burst": 1, "fam": "release-histories"}


LOADED = [a for a in net_ref.all_addresses() if a and a != net_ref.DEFAULT_ADDR][:20]


def gen_lookups_of_loaded(ctx):
    """lookups that name the IDs / addresses of a table the master loaded from its JSON file"""
    frames = []
    for i, ad in enumerate(LOADED):
        frames.append({"to": None, "dcls": "self", "ocls": "valid", "type": 198, "len": 2, "reserved": 0,
                       "id": 700 + i, "pipe": 1, "body_hex": bytes([ad & 0xFF, ad >> 8]).hex()})
        frames.append({"to": None, "dcls": "self", "ocls": "valid", "type": 196, "len": 1, "reserved": 0,
                       "id": 750 + i, "pipe": 1, "body_hex": bytes([1 + i]).hex()})
    yield {"part": "frames", "role": "masterloaded", "level": 0, "frames": frames, "seed": 5, "phantom": True, "burst": 1}


def gen_fragment_pairs(ctx):
    """well-formed FIRST fragments followed by LAST fragments whose reserved byte (the original
    message type) takes system values - 131 NETWORK_EXT_DATA is handed over specially - and by
    stray MORE/LAST fragments; reassembly must never raise or make the node transmit"""
    for role in ("net", "meshnm_connected", "master3", "router"):
        frames = []
        for k, last in enumerate((131, 0, 1, 65, 127, 128, 148, 150, 193, 195, 255)):
            fid = 500 + k
            frames.append({"to": None, "dcls": "self", "ocls": "valid", "type": 148, "len": 24, "reserved": 2,
                           "id": fid, "pipe": 2, "fixed_origin": 0o5})
            frames.append({"to": None, "dcls": "self", "ocls": "valid", "type": 150, "len": 5, "reserved": last,
                           "id": fid, "pipe": 2, "fixed_origin": 0o5})
            frames.append({"to": None, "dcls": "self", "ocls": "valid", "type": 149, "len": 24, "reserved": last,
                           "id": fid + 50, "pipe": 2, "fixed_origin": 0o5})
            frames.append({"to": None, "dcls": "self", "ocls": "valid", "type": 150, "len": 0, "reserved": last,
                           "id": fid + 50, "pipe": 2, "fixed_origin": 0o5})
        yield {"part": "frames", "role": role, "level": 0 if role.startswith("master") else 2,
               "frames": frames, "seed": 31, "phantom": True, "burst": 2}
        # complete streams of 2..9 full fragments (from 7 on longer than any message a node sends)
        frames = []
        for n in range(2, 10):
            for typ in (5, 100):
                fid = 700 + n * 2 + (typ == 100)
                for j in range(n):
                    ft = 148 if j == 0 else (150 if j == n - 1 else 149)
                    frames.append({"to": None, "dcls": "self", "ocls": "valid", "type": ft, "len": 24,
                                   "reserved": typ if j == n - 1 else n - j, "id": fid, "pipe": 3, "fixed_origin": 0o5})
        yield {"part": "frames", "role": role, "level": 0 if role.startswith("master") else 2,
               "frames": frames, "seed": 32, "phantom": True, "burst": 1}


def drain_checked(ctx, case, o, seen_heads, frames_so_far):
    """the application empties its queue: whatever it is handed came from a frame that was received
    (same origin and frame id) - never from nowhere"""
    while o.available():
        f = o.read()
        ctx.clause("queued_frames_were_received")
        if f is None or (f.header.from_node, f.header.frame_id) not in seen_heads:
            ctx.violation("queued-frame-never-received/%s" % case["role"].rstrip("0123456789"),
                          "%s: the application read %s (%d message bytes) - no received frame had that origin and frame id"
                          % (case["role"], None if f is None else f.header.to_string(), 0 if f is None else len(f.message)),
                          dict(case, frames=frames_so_far[-12:], burst=case["burst"]))
            return False
    return True


def make_node(rig, role, level, seed):
    m = repo()
    radio = rig.radio("dut")
    if role == "router":
        o = rig.driver(radio, cls=m["rf24_network"].RF24NetworkRoutingOnly, node_address=ADDR_BY_LEVEL[level])
    elif role in ("net", "net_relay"):
        o = rig.driver(radio, cls=m["rf24_network"].RF24Network, node_address=ADDR_BY_LEVEL[level])
        if role == "net_relay":
            o.multicast_relay = True  # re-broadcasts the multicasts it receives (levels 0..4)
    elif role.startswith("meshnm"):
        o = rig.driver(radio, cls=m["rf24_mesh"].RF24MeshNoMaster, node_id=9)
        if role == "meshnm_connected":
            begin = getattr(o, "_begin", None)  # white-box *setup* only (stands in for a join)
            if begin is None:
                return None, None
            begin(ADDR_BY_LEVEL[max(1, level)])
    else:
        o = rig.driver(radio, cls=m["rf24_mesh"].RF24Mesh, node_id=0)
        rng = random.Random(seed)
        pool = [a for a in net_ref.all_addresses() if a and a != net_ref.DEFAULT_ADDR]
        rng.shuffle(pool)
        if role == "masterloaded":
            # a restarted master: the table was saved (JSON) by the previous incarnation and is
            # loaded into the fresh object
            import os, tempfile
            prev = rig.driver(rig.radio("prev"), cls=m["rf24_mesh"].RF24Mesh, node_id=0)
            for i, ad in enumerate(LOADED):
                prev.set_address(1 + i, ad)
            d = tempfile.mkdtemp(prefix="c15_", dir="/dev/shm")
            fn = os.path.join(d, "dhcp.json")
            try:
                prev.save_dhcp(fn)
                o.load_dhcp(fn)
            finally:
                if os.path.exists(fn):
                    os.unlink(fn)
                os.rmdir(d)
            return radio, o
        if role == "masterfull":
            # every slot below the master and below the origins the generator uses is leased:
            # address requests cannot be served
            full = [c for c in range(1, 6)]
            for par in (0o2, 0o15, 0o5, 0o342, 0o1):
                full += [par | (c << (3 * net_ref.level(par))) for c in range(1, 6)]
            full = [a for a in dict.fromkeys(full) if a != net_ref.DEFAULT_ADDR]
            pool = full + [a for a in pool if a not in full]
            n = len(full) + 5
        else:
            n = int(role[6:])
        for i in range(n):
            o.set_address(1 + i, pool[i])
    return radio, o


def run_case(ctx, case):
    if case["part"] == "predicate":
        m = repo()
        f = m["structs"].is_address_valid
        bad = []
        for a in list(range(65536)) + [None]:
            ctx.clause("predicate")
            got = bool(f(a))
            if got != net_ref.is_valid(a):
                bad.append(a)
        if bad:
            digs = sorted({len(net_ref.digits(a)) for a in bad if a is not None})
            ctx.violation("is_address_valid/%s" % ("too-many-digits" if all(d > 4 for d in digs) else "other"),
                          "is_address_valid disagrees with the reference predicate on %d values, e.g. "
                          "%s (octal digit counts %r)" % (len(bad), [oct(a) if a is not None else None for a in bad[:5]], digs),
                          case)
        ctx.nontrivial(("predicate",))
        ctx.evaluations += 65536
        return
    rig = Rig(seed=case["seed"], profile=W.Profile(spi_overhead=40000, jitter=0.2))
    try:
        if case["phantom"]:
            rig.air.promisc = Phantom()
        radio, o = make_node(rig, case["role"], case["level"], case["seed"])
        if o is not None and case.get("mlevel") is not None:
            o.multicast_level = case["mlevel"]
            ctx.count("nodes_with_multicast_level_reassigned")
            if case.get("readdr_level") is not None:
                o.node_address = ADDR_BY_LEVEL[case["readdr_level"]]
                ctx.count("nodes_readdressed_after_a_level_override")
        if o is not None and case.get("frag_off"):
            o.fragmentation = False
            ctx.count("nodes_with_fragmentation_off")
        if o is None:
            return
        _frames(ctx, case, rig, radio, o)
    finally:
        rig.close()


def build(fr, me, rng, lease_hist=None):
    if "raw" in fr:
        return bytes.fromhex(fr["raw"]), None
    if "origin_lease" in fr:
        # a frame sent from an address the master leased to that ID earlier in this case (k-th lease)
        hist = (lease_hist or {}).get(fr["origin_lease"][0], [])
        k = fr["origin_lease"][1]
        fr = dict(fr, fixed_origin=hist[k] if -len(hist) <= k < len(hist) else 0o5)
    to = fr["to"] if fr["to"] is not None else dest_of(fr["dcls"], me, rng)
    oc = fr["ocls"]
    frm = {"valid": rng.choice([0o2, 0o15, 0o5, 0o342, 0o1]), "default": 0o4444,
           "invalid": rng.choice([0o7, 0o60, 0x1FFF, 0o7777, 0xFFFF]), "self": me}[oc]
    if "fixed_origin" in fr:
        frm = fr["fixed_origin"]  # fragments of one message come from one origin
    body = bytes((fr["id"] + i) & 0xFF for i in range(fr["len"]))
    if "body_hex" in fr:
        body = bytes.fromhex(fr["body_hex"])
    if fr.get("lookup_own_address"):
        body = bytes([frm & 0xFF, (frm >> 8) & 0xFF])  # "which ID has my address?"
    raw = bytes([frm & 0xFF, (frm >> 8) & 0xFF, to & 0xFF, (to >> 8) & 0xFF, fr["id"] & 0xFF,
                 (fr["id"] >> 8) & 0xFF, fr["type"], fr["reserved"]]) + body
    return raw, (frm, to)


def _frames(ctx, case, rig, radio, o):
    node = rig.node
    rng = random.Random(case["seed"] ^ 0xC15)
    me = o.node_address
    frames = case["frames"]
    i = 0
    seen_heads = set()
    lease_hist = {}
    while i < len(frames):
        burst = frames[i:i + case["burst"]]
        i += case["burst"]
        # drain the application's queue first so that acceptance is visible
        if not drain_checked(ctx, case, o, seen_heads, frames[:i]):
            return
        built = [build(fr, me, rng, lease_hist) for fr in burst]
        for raw, _ in built:
            if len(raw) >= 8:
                hh = net_ref.unpack_header(raw)
                seen_heads.add((hh["from"], hh["id"]))
        qlen0 = len(o.queue)
        table0 = dict(getattr(o, "dhcp_dict", None) or {})
        addr0 = o.node_address
        pipes0 = [radio.pipe_addr(p) for p in range(6)] + [radio.r[2]]
        air0 = len(rig.air.log)
        for (raw, _), fr in zip(built, burst):
            radio.inject_rx(fr.get("pipe", 1), raw)
        t0 = node.t
        node.deadline = node.t + len(burst) * 600 * W.MS
        exc = None
        leftover_air = None
        try:
            ret = o.update()
            # update() may return after a system frame with more frames still in the FIFO:
            # the application's next update() calls handle them (judged for exceptions too)
            leftover_air = len(rig.air.log)
            for _ in range(4):
                if not radio.rx_fifo:
                    break
                o.update()
        except W.VirtualDeadline:
            exc = "no return"
        except Exception as e:  # noqa: BLE001
            exc = e
        node.deadline = None
        ctx.clause("update_returns")
        desc = [(fr.get("type"), fr.get("len"), fr.get("dcls"), fr.get("ocls")) if "raw" not in fr
                else ("raw", len(fr["raw"]) // 2) for fr in burst]
        if exc is not None:
            tcls = "random-bytes" if "raw" in burst[0] else "type%d" % burst[0]["type"]
            tcls = "mesh-lookup" if any(fr.get("type") in (196, 198) for fr in burst) else tcls
            ctx.violation("update-raises/%s/%s/%s" % (case["role"].rstrip("0123456789"), tcls,
                                                      type(exc).__name__ if not isinstance(exc, str) else "no-return"),
                          "%s (level %d, address %s): update() on frame(s) %r -> %r"
                          % (case["role"], case["level"], oct(me), desc, exc),
                          dict(case, frames=burst, burst=len(burst)))
            return
        ctx.clause("bounded_time")
        dur = (node.t - t0) / 1e6
        if dur > len(burst) * 200 * 2:
            ctx.violation("update-too-slow/%s" % case["role"], "update() took %.1f virtual ms for %d "
                          "frame(s) %r" % (dur, len(burst), desc), dict(case, frames=burst, burst=len(burst)))
            return
        invalid_all = all(len(raw) < 8 or not net_ref.is_valid(ft[1]) or not net_ref.is_valid(ft[0])
                          for raw, ft in [(r, (f if f else (None, None))) if len(r) >= 8 and f else (r, (None, None))
                                          for r, f in built]) if False else None
        inv = []
        for raw, ft in built:
            if len(raw) < 8:
                inv.append(True)
                continue
            h = net_ref.unpack_header(raw)
            # 13..16-bit values are out of the address space as well
            inv.append(not net_ref.is_valid(h["from"] & 0xFFFF) or not net_ref.is_valid(h["to"] & 0xFFFF)
                       or h["from"] > 0xFFF and not net_ref.is_valid(h["from"])
                       or h["to"] > 0xFFF and not net_ref.is_valid(h["to"]))
        if all(inv):
            ctx.clause("invalid_dropped")
            sent_now = [p for p in rig.air.log[air0:] if p.kind == "data" and p.src is radio]
            if len(o.queue) != qlen0 or sent_now:
                ctx.violation("invalid-frame-not-dropped/%s" % case["role"].rstrip("0123456789"),
                              "frame(s) %r with short/invalid header: queue %d->%d, packets on air %d"
                              % ([r.hex()[:24] for r, _ in built], qlen0, len(o.queue),
                                 len(sent_now)), dict(case, frames=burst, burst=len(burst)))
                return
        # ---- nothing a node receives may move it to another address or change what it listens to
        ctx.clause("address_preserved")
        pipes1 = [radio.pipe_addr(p) for p in range(6)] + [radio.r[2]]
        if o.node_address != addr0 or pipes1 != pipes0:
            ctx.violation("node-address-changed/%s" % case["role"].rstrip("0123456789"),
                          "%s: after receiving %r the node's address is %s (was %s); pipes %s"
                          % (case["role"], desc, oct(o.node_address), oct(addr0),
                             "unchanged" if pipes1 == pipes0 else "now %r" % [x.hex() if isinstance(x, bytes) else x for x in pipes1][:2]),
                          dict(case, frames=frames[:i], burst=case["burst"]))
            return
        # ---- what the node transmits must be explained by what it received: the frame itself
        # passed along, a NETWORK_ACK for it, or the protocol's answer to that very type (poll ->
        # poll, lookup -> lookup, address request -> request passed to the master / response)
        heads = [net_ref.unpack_header(raw) for raw, _ in built if len(raw) >= 8]
        ctx.clause("transmissions_explained")
        for p in rig.air.log[air0:]:
            if p.kind != "data" or p.src is not radio or len(p.payload) < 8:
                continue
            ho = net_ref.unpack_header(p.payload)
            if not any(hi["id"] == ho["id"] and (ho["type"] == hi["type"] or ho["type"] == net_ref.NETWORK_ACK
                                                 or (hi["type"] == 195 and ho["type"] == 128))
                       for hi in heads):
                ctx.violation("unexplained-transmission/%s" % case["role"].rstrip("0123456789"),
                              "%s (address %s) transmitted a type-%d frame from %s to %s (id %d) after "
                              "receiving only %r" % (case["role"], oct(me), ho["type"], oct(ho["from"]),
                                                     oct(ho["to"]), ho["id"], desc),
                              dict(case, frames=frames[:i], burst=case["burst"]))
                return
        if hasattr(o, "dhcp_dict"):
            for k_id, k_ad in o.dhcp_dict.items():
                if lease_hist.get(k_id, [None])[-1] != k_ad:
                    lease_hist.setdefault(k_id, []).append(k_ad)
        if table0 is not None and hasattr(o, "dhcp_dict"):
            ctx.clause("lease_table_explained")
            if dict(o.dhcp_dict) != table0 and not any(hi["type"] in (195, 197) for hi in heads):
                diff = {k: (table0.get(k), o.dhcp_dict.get(k)) for k in set(table0) | set(o.dhcp_dict)
                        if table0.get(k) != o.dhcp_dict.get(k)}
                ctx.violation("lease-table-changed-by-unrelated-frame", "master's table changed %r after "
                              "frame(s) %r (neither an address request nor a release)" % (diff, desc),
                              dict(case, frames=frames[:i], burst=case["burst"]))
                return
        for fr in burst:
            if "raw" in fr:
                ctx.nontrivial((case["role"], case["level"], "raw", len(fr["raw"]) // 2))
            else:
                ctx.nontrivial((case["role"], case["level"], fr["type"], fr["len"], fr["dcls"], fr["ocls"]))
    if not drain_checked(ctx, case, o, seen_heads, frames):
        return
    if radio.san:
        ctx.violation("sanitizer:" + radio.san[0][0], radio.san[0][1], case)
        return
    ctx.sample({"role": case["role"], "level": case["level"], "frames": len(frames),
                "first": frames[:2], "air_packets": len(rig.air.log), "spi": radio.n_cmds})
