"""C08 - RX/TX switching preserves the user's pipe-0 address and ACK reception.
DESIGN §4/C08.  `run_case` is parameterised by driver kind for C20."""
import random

from vsim import world as W
from vsim.rig import Rig, repo

PROP = "C08"
RULE = ("call sequences over {open_rx_pipe(0|1|2,a), close_rx_pipe(0|1), open_tx_pipe(a), "
        "set_auto_ack(0|1,0), auto_ack=0|0x3F|0x3E, listen=True|False} with four addresses that "
        "are shorter than / equal to / share a prefix with the TX address and address widths "
        "3..5: breadth-first with state hashing (radio registers x driver object state) to "
        "depth 4 (quick) / 6 (thorough) plus seeded random walks of depth 30; each executed "
        "path is judged at every call return against a small reference automaton, and its "
        "last call is followed by real probe transmissions (a third radio sending to the "
        "user's address and to the TX address; send() to a listening peer). Non-trivial: at "
        "least one role change was observed; distinct = distinct call histories.")
RULE += (" Later rounds added: neutral calls mixed into the random walks (get_auto_ack, power, an open_rx_pipe(0, empty) the driver refuses, CE driven by the application in TX role), auto-ack for pipe 0 switched on implicitly by ack = True, directed templates beyond the search depth (two TX addresses with auto-ack changes between them; a neutral call before each of two RX entries; auto-ack for pipe 0 off around an RX phase and on again in TX role before a TX address is set; the list / tuple form of the auto_ack attribute in templates and walks).")
REQUIRED = {"rx_entry_pipe0": 300, "probe_user_addr": 100, "probe_tx_addr": 50,
            "tx_pipe0_ack_addr": 200, "send_probe": 100, "ce_at_return": 2000,
            "prim_rx_flip_ce": 500}
BUDGET = {"quick": 480, "thorough": 900}

A = "e1f0f0f0f0"
B = "e1f0f0"
C = "c711223344"
D = "c71122"
OPS = [["open_rx_pipe", 0, A], ["open_rx_pipe", 0, B], ["open_rx_pipe", 0, C],
       ["open_rx_pipe", 0, D], ["open_rx_pipe", 1, "b155667788"], ["open_rx_pipe", 2, "d2"],
       ["close_rx_pipe", 0], ["close_rx_pipe", 1],
       ["open_tx_pipe", A], ["open_tx_pipe", B], ["open_tx_pipe", C], ["open_tx_pipe", D],
       ["set_auto_ack", 0, 0], ["set_auto_ack", 1, 0], ["auto_ack", 0], ["auto_ack", 0x3F],
       ["auto_ack", 0x3E], ["listen", True], ["listen", False]]
LITE_OPS = [o for o in OPS if o[0] not in ("set_auto_ack", "auto_ack")]


def ops_for(kind):
    return OPS if kind == "full" else LITE_OPS


class Ref:
    """what the property lets the user rely on"""

    def __init__(self):
        self.user0 = None
        self.tx = bytearray(b"\xE7" * 5)
        self.aa0 = True
        self.role = None

    def apply(self, op):
        n = op[0]
        if n == "open_rx_pipe" and op[1] == 0:
            self.user0 = bytes.fromhex(op[2])
        elif n == "close_rx_pipe" and op[1] == 0:
            self.user0 = None
        elif n == "open_tx_pipe":
            a = bytes.fromhex(op[1])
            self.tx[: len(a)] = a
        elif n == "set_auto_ack" and op[2] == 0:
            self.aa0 = bool(op[1])
        elif n == "auto_ack":
            self.aa0 = bool(op[1] & 1)
        elif n == "listen":
            self.role = "rx" if op[1] else "tx"
        elif n == "auto_ack_seq":
            self.aa0 = bool(op[1])
        elif n == "ack" and op[1]:
            self.aa0 = True  # documented: ACK payloads need (and switch on) auto-ack for pipe 0


def do(obj, op):
    n = op[0]
    if n == "open_rx_pipe":
        obj.open_rx_pipe(op[1], bytes.fromhex(op[2]))
    elif n == "close_rx_pipe":
        obj.close_rx_pipe(op[1])
    elif n == "open_tx_pipe":
        obj.open_tx_pipe(bytes.fromhex(op[1]))
    elif n == "set_auto_ack":
        obj.set_auto_ack(bool(op[1]), op[2])
    elif n == "auto_ack":
        obj.auto_ack = op[1]
    elif n == "listen":
        obj.listen = op[1]
    elif n == "get_auto_ack":
        obj.get_auto_ack(op[1])
    elif n == "power":
        obj.power = op[1]
    elif n == "auto_ack_seq":
        # the sequence form of the attribute: one entry per pipe
        seq = [bool(op[1])] + [True] * 5
        obj.auto_ack = seq if op[2] == "list" else tuple(seq)
    elif n == "ack":
        obj.ack = op[1]
    elif n == "open_rx_pipe_rejected":
        # a call the driver refuses (empty address): ValueError, and nothing the property speaks
        # about may have changed
        try:
            obj.open_rx_pipe(0, [b"", bytearray()][op[1]])
        except ValueError:
            pass
    elif n == "ce" and obj.power and not obj.listen:
        obj.ce_pin = op[1]  # in TX role the application may drive CE itself (write() does)


# calls that change nothing the property speaks about; mixed into the random walks only
NEUTRAL_OPS = [["get_auto_ack", 0], ["get_auto_ack", 2], ["get_auto_ack", 5], ["power", False], ["power", True],
               ["open_rx_pipe_rejected", 0], ["open_rx_pipe_rejected", 1], ["ce", True], ["ce", False]]
FULL_ONLY_NEUTRAL = ("get_auto_ack", "ce")
# auto-ack for pipe 0 switched on implicitly (ACK payloads); part of the walks and templates of the full driver
IMPLICIT_AA = [["ack", True], ["ack", False], ["auto_ack_seq", 1, "list"], ["auto_ack_seq", 0, "tuple"], ["auto_ack_seq", 1, "tuple"]]


def obj_state(obj):
    d = []
    for k, v in sorted(vars(obj).items()):
        if isinstance(v, (int, bool, bytes, bytearray, type(None), list, tuple, str)):
            if k in ("_in", "_out", "_status"):
                continue
            d.append((k, repr(v)))
    return tuple(d)


def execute(ctx, case, probe=True, prefix=""):
    """run one path; returns the state hash key or None after a violation"""
    m = repo()
    kind = case.get("kind", "full")
    aw = case["aw"]
    rig = Rig(seed=case.get("seed", 0))
    try:
        rd = rig.radio("dut")
        cls = m["rf24"].RF24 if kind == "full" else m["rf24_lite"].RF24
        dut = rig.driver(rd, cls=cls, flavour="bus" if kind == "lite" else "pin")
        dut.address_length = aw
        ref = Ref()
        hist = []
        roles = 0
        for i, op in enumerate(case["ops"]):
            del rd.cfg_writes[:]
            do(dut, op)
            ref.apply(op)
            hist.append(op)
            if op[0] == "listen":
                roles += 1
            if not _judge(ctx, case, rd, ref, op, hist, prefix, aw):
                return None
        if probe and case["ops"]:
            if not _probe(ctx, case, rig, rd, dut, ref, case["ops"][-1], hist, prefix, aw, kind):
                return None
        if roles:
            ctx.nontrivial((kind, aw, repr(case["ops"])))
        snap = rd.snapshot()
        return (snap["cfg"], snap["ce"], obj_state(dut), ref.user0, bytes(ref.tx), ref.aa0, ref.role)
    finally:
        rig.close()


def _judge(ctx, case, rd, ref, op, hist, prefix, aw):
    cfg = rd.r[0]
    # CE clauses
    ctx.clause("prim_rx_flip_ce")
    for t, old, new, ce in rd.cfg_writes:
        if (old ^ new) & 1 and ce:
            ctx.violation(prefix + "prim_rx-flipped-while-ce-high",
                          "CONFIG %02X->%02X written with CE high during %r (history %r)"
                          % (old, new, op, hist), case)
            return False
    ctx.clause("ce_at_return")
    if cfg & 3 == 3 and not rd.ce:
        ctx.violation(prefix + "rx-mode-ce-low", "after %r the radio is in RX mode with CE low "
                      "(history %r)" % (op, hist), case)
        return False
    if op[0] == "listen" and op[1]:
        if cfg & 3 != 3:
            ctx.violation(prefix + "listen-not-rx", "after listen=True CONFIG=%02X" % cfg, case)
            return False
        ctx.clause("rx_entry_pipe0")
        p0 = bytes(rd.addr[0x0A])
        is_open = bool(rd.r[2] & 1)
        if ref.user0 is None:
            if is_open:
                ctx.violation(prefix + "rx-entry/pipe0-open-without-user-address",
                              "entering RX mode: pipe 0 is open on %s although the user never "
                              "opened it / closed it (history %r)" % (p0.hex(), hist), case)
                return False
        else:
            u = ref.user0
            if not is_open or p0[: len(u)] != u:
                ctx.violation(prefix + "rx-entry/pipe0-not-on-user-address",
                              "entering RX mode: pipe 0 %s on %s, user opened it with %s "
                              "(history %r)" % ("open" if is_open else "closed", p0.hex(),
                                                u.hex(), hist), case)
                return False
            if (len(u) >= aw and u[:aw] != bytes(ref.tx[:aw]) and p0[:aw] == bytes(ref.tx[:aw])):
                ctx.violation(prefix + "rx-entry/pipe0-on-tx-address", "pipe 0 listens on the TX "
                              "address %s (history %r)" % (p0.hex(), hist), case)
                return False
    if op[0] == "open_tx_pipe" and ref.role == "tx" and ref.aa0:
        ctx.clause("tx_pipe0_ack_addr")
        p0 = bytes(rd.addr[0x0A])
        txa = bytes(rd.addr[0x10])
        if txa != bytes(ref.tx):
            ctx.violation(prefix + "tx-address-register", "TX_ADDR=%s expected %s (history %r)"
                          % (txa.hex(), bytes(ref.tx).hex(), hist), case)
            return False
        if p0[:aw] != txa[:aw]:
            ctx.violation(prefix + "tx-mode/pipe0-not-on-tx-address",
                          "after open_tx_pipe in TX mode with auto-ack on pipe 0: RX_ADDR_P0=%s "
                          "TX_ADDR=%s (history %r)" % (p0.hex(), txa.hex(), hist), case)
            return False
        if not rd.r[2] & 1:
            ctx.violation(prefix + "tx-mode/pipe0-closed",
                          "after open_tx_pipe in TX mode with auto-ack on pipe 0, pipe 0 is "
                          "closed: no acknowledgement can be received (history %r)" % (hist,), case)
            return False
    if rd.san:
        ctx.violation(prefix + "sanitizer:" + rd.san[0][0], "%s (history %r)" % (rd.san[0][1], hist),
                      case)
        return False
    return True


def _probe(ctx, case, rig, rd, dut, ref, op, hist, prefix, aw, kind):
    m = repo()
    node = rig.node
    if op[0] == "listen" and op[1]:
        rp = rig.radio("probe")
        pr = rig.driver(rp)
        pr.address_length = aw
        pr.auto_ack = False
        pr.listen = False
        p0 = bytes(rd.addr[0x0A])
        if ref.user0 is not None:
            ctx.clause("probe_user_addr")
            target = p0 if len(ref.user0) < aw else (ref.user0 + p0[len(ref.user0):])[:5]
            pr.open_tx_pipe(target)
            rd.rx_fifo.clear()
            pr.send(b"probe-user")
            node.idle(2 * W.MS)
            if [p for p, _ in rd.rx_fifo] != [0] or not dut.available() or dut.pipe != 0:
                ctx.violation(prefix + "probe/user-address-not-received",
                              "a packet sent to the user's pipe-0 address %s right after "
                              "listen=True was not received on pipe 0 (rx fifo %r; history %r)"
                              % (target.hex(), rd.rx_fifo, hist), case)
                return False
        txa = bytes(ref.tx)
        others = [rd.pipe_addr(p)[:aw] for p in range(6) if rd.r[2] & (1 << p)]
        legit = ref.user0 is not None and len(ref.user0) < aw  # ambiguous short address
        if txa[:aw] not in [(ref.user0 or b"")[:aw]] and not legit:
            user_eff = None
            ctx.clause("probe_tx_addr")
            pr.open_tx_pipe(txa)
            rd.rx_fifo.clear()
            pr.send(b"probe-tx")
            node.idle(2 * W.MS)
            on1 = [rd.pipe_addr(p)[:aw] for p in range(1, 6) if rd.r[2] & (1 << p)]
            if any(p == 0 for p, _ in rd.rx_fifo) and txa[:aw] not in on1:
                ctx.violation(prefix + "probe/tx-address-received-on-pipe0",
                              "in RX mode a packet sent to the TX address %s was received on "
                              "pipe 0 (history %r)" % (txa.hex(), hist), case)
                return False
    if op[0] == "open_tx_pipe" and ref.role == "tx" and ref.aa0:
        ctx.clause("send_probe")
        rp = rig.radio("peer")
        peer = rig.driver(rp)
        peer.address_length = aw
        peer.open_rx_pipe(1, bytes(ref.tx))
        peer.listen = True
        node.idle(400000)
        node.deadline = node.t + 200 * W.MS
        try:
            res = dut.send(b"ack-probe")
        except W.VirtualDeadline:
            res = "no return"
        node.deadline = None
        if res is not True:
            ctx.violation(prefix + "send-after-open_tx_pipe-fails",
                          "send() to a peer listening on %s returned %r right after "
                          "open_tx_pipe() in TX mode (history %r)" % (bytes(ref.tx).hex(), res,
                                                                      hist), case)
            return False
    return True


def run_shard(ctx, kind="full", prefix=""):
    ops = ops_for(kind)
    depth = 4 if ctx.tier == "quick" else 6
    # shard on (aw, first op)
    roots = [(aw, i) for aw in (3, 4, 5) for i in range(len(ops))]
    mine = [r for k, r in enumerate(roots) if k % ctx.nshards == ctx.shard]
    seen = set()
    nstates = 0
    for aw, first in mine:
        frontier = [[ops[first]]]
        for d in range(1, depth + 1):
            nxt = []
            for path in frontier:
                if ctx.out_of_time():
                    break
                case = {"kind": kind, "aw": aw, "ops": path}
                ctx.evaluations += 1
                key = execute(ctx, case, prefix=prefix)
                if key is None:
                    continue
                if ("state", aw) + key in seen:
                    ctx.count("pruned_by_state_hash")
                    continue
                seen.add(("state", aw) + key)
                nstates += 1
                if d < depth:
                    for op in ops:
                        nxt.append(path + [op])
            frontier = nxt
            if ctx.out_of_time():
                break
    ctx.count("distinct_automaton_x_radio_states", nstates)
    # directed templates beyond the search depth: a user address on pipe 0, a TX address, auto-ack
    # for pipe 0 changed, ANOTHER TX address, (auto-ack back), RX entry, back to TX, TX address again
    E = "a5a5a5a5a5"
    tpl = []
    for x in (A, B, C):
        for y in (A, C, E):
            for aa1 in (None, ["set_auto_ack", 0, 0], ["auto_ack", 0x3E], ["auto_ack", 0], ["auto_ack_seq", 0, "list"]):
                for z in (C, D, E, A):
                    for aa2 in (None, ["set_auto_ack", 1, 0], ["auto_ack", 0x3F], ["ack", True], ["auto_ack_seq", 1, "list"],
                                ["auto_ack_seq", 1, "tuple"]):
                        if kind != "full" and (aa1 or aa2):
                            continue
                        path = [["open_rx_pipe", 0, x], ["open_tx_pipe", y]] + ([aa1] if aa1 else []) + \
                               [["open_tx_pipe", z]] + ([aa2] if aa2 else []) + [["listen", True], ["listen", False],
                                                                                ["open_tx_pipe", y]]
                        tpl.append(path)
    # ... and with a neutral call (refused open_rx_pipe, CE driven by the application in TX role) before each of two RX entries
    for nop in NEUTRAL_OPS[5:]:
        if kind != "full" and nop[0] in FULL_ONLY_NEUTRAL:
            continue
        for x in (None, A, D):
            for y in (A, C):
                for aa1 in ((None, ["auto_ack", 0x3E]) if kind == "full" else (None,)):
                    pre = ([["open_rx_pipe", 0, x]] if x else []) + [["listen", False], ["open_tx_pipe", y]] + ([aa1] if aa1 else [])
                    tpl.append(pre + [nop, ["listen", True], ["listen", False], nop, ["listen", True], ["listen", False],
                                      ["open_tx_pipe", y]])
    # ... and auto-ack for pipe 0 switched off around an RX phase (before the RX entry or while
    # listening), switched on again in TX role, then a TX address: pipe 0 has to be open for the
    # acknowledgement whatever the driver remembered about it while it listened
    if kind == "full":
        for x in (None, A, D):
            for opener in (["listen", False], ["open_tx_pipe", C], ["open_tx_pipe", A]):
                for aoff in (["set_auto_ack", 0, 0], ["auto_ack", 0x3E], ["auto_ack", 0], ["auto_ack_seq", 0, "tuple"]):
                    for where in ("tx", "rx", "rx-late"):
                        for aon in (["set_auto_ack", 1, 0], ["auto_ack", 0x3F], ["ack", True], ["auto_ack_seq", 1, "list"]):
                            for z in (C, A):
                                path = ([["open_rx_pipe", 0, x]] if x else []) + [opener]
                                if where == "tx":
                                    path += [aoff, ["listen", True]]
                                elif where == "rx":
                                    path += [["listen", True], aoff]
                                else:  # a second RX phase: the first one is left with auto-ack still on
                                    path += [["listen", True], ["listen", False], ["listen", True], aoff]
                                path += [["listen", False], aon, ["open_tx_pipe", z]]
                                tpl.append(path)
    for ti, path in enumerate(tpl):
        if ti % ctx.nshards != ctx.shard:
            continue
        if ctx.out_of_time():
            break
        aw = 3 + ti % 3
        for c in sorted({j + 1 for j, o in enumerate(path) if o == ["listen", True]} | {len(path)}):  # each RX entry, the end
            ctx.evaluations += 1
            execute(ctx, {"kind": kind, "aw": aw, "ops": path[:c]}, prefix=prefix)
    ctx.count("directed_templates", len(tpl))
    # random walks
    rng = ctx.sub_rng("c08walk", kind, ctx.shard)
    nwalk = 60 if ctx.tier == "quick" else 3000
    for w in range(nwalk):
        if ctx.out_of_time():
            break
        aw = rng.choice([3, 4, 5])
        L = rng.randrange(5, 31)
        walk_ops = ops + [o for o in NEUTRAL_OPS if kind == "full" or o[0] not in FULL_ONLY_NEUTRAL] \
            + (IMPLICIT_AA if kind == "full" else [])
        path = [rng.choice(walk_ops) for _ in range(L)]
        # the probes need a powered radio (send() does not power the radio up: documented usage
        # is listen = False first); `listen` assignments power it up themselves
        on = True
        judged = []
        for i, o in enumerate(path):
            if o[0] == "power":
                on = o[1]
            elif o[0] == "listen":
                on = True
            if o[0] == "listen" or (o[0] == "open_tx_pipe" and on):
                judged.append(i + 1)
        if not on:
            path.append(["power", True])
        L = len(path)
        # every prefix ending in a judged op gets probed
        cut = judged
        for c in rng.sample(cut, min(len(cut), 4)) + [L]:
            ctx.evaluations += 1
            execute(ctx, {"kind": kind, "aw": aw, "ops": path[:c]}, prefix=prefix)
    if ctx.shard == 0:
        ctx.sample({"aw": 5, "ops": [ops[0], ops[8], ops[17], ops[18]], "note":
                    "every path is judged at each call return and probed after its last call"})


def run_case(ctx, case, prefix=""):
    execute(ctx, case, prefix=prefix)
