"""C14 - a multicast reaches exactly the chosen network level, unacknowledged. DESIGN §4/C14."""
from checks import netcommon as N
from checks.c05 import msg_bytes
from refmodels import net_ref
from vsim import world as W

PROP = "C14"
RULE = ("random populated topologies (3..12 real nodes, >=2 nodes on most levels) with per-node "
        "allow_multicast and multicast_relay flags and seeded MCU profiles; multicasts from every "
        "sender class (master, 0o1, other level-1, deeper levels) to level None/0..4 and the "
        "out-of-range values -1 and 7, message lengths 0..144, one at a time, plus (a) nodes whose "
        "multicast_level was re-assigned through the setter and (b) multicasts that arrive while "
        "a level member is inside its NETWORK_ACK wait for a routed unicast; judged at quiescence "
        "from all application logs and the air log (copies per node, levels reached, packets per "
        "frame, ACK packets, relayed frames). Non-trivial: a multicast frame crossed the air and "
        "quiescence was reached; distinct = (sender class, level argument, length class, relay "
        "pattern, multicast-off pattern, profile class).")
RULE += (" Later rounds added: multicast_level overrides, multicasts arriving while a member waits for a NETWORK_ACK, the reverse (a member's failing unicast starts right after the multicast reached its radio), a relay whose application stops reading, a multicast after a fragmented unicast that failed outright, nodes whose address was assigned more than once (the same again, or another level first) before the traffic, a multicast to the level of a node that has just completed an acknowledged unicast over two or more hops, nodes that switched multicasting off and on again at run time; one node with a multicast and unicasts waiting together in its RX FIFO in every order (two multicast senders using the same frame id).")
REQUIRED = {"level_members_once": 150, "other_levels_clean": 150, "unacknowledged": 150,
            "relay_rebroadcast": 20, "multicast_off_not_listening": 30}
BUDGET = {"quick": 480, "thorough": 900}


def populated(rng, nmin=3, nmax=12):
    nodes = [0]
    n = rng.randrange(nmin, nmax + 1)
    # at least two level-1 nodes, often 0o1
    l1 = rng.sample(range(1, 6), rng.randrange(2, 5))
    if rng.random() < 0.6 and 1 not in l1:
        l1[0] = 1
    nodes += l1
    while len(nodes) < n:
        p = rng.choice([a for a in nodes if net_ref.level(a) < 4 and a != 0] or nodes)
        a = p | (rng.randrange(1, 6) << (3 * net_ref.level(p)))
        if a not in nodes and a != net_ref.DEFAULT_ADDR:
            nodes.append(a)
            # a sibling on the same level makes ">=2 nodes on the level" common
            if len(nodes) < n and rng.random() < 0.6:
                b = p | (rng.randrange(1, 6) << (3 * net_ref.level(p)))
                if b not in nodes and b != net_ref.DEFAULT_ADDR:
                    nodes.append(b)
    return nodes


def gen_cases(ctx):
    yield from gen_fifo_pairs(ctx)
    yield from _gen_cases(ctx)


def _gen_cases(ctx):
    rng = ctx.sub_rng("c14")
    rng2 = ctx.sub_rng("c14b")  # later additions draw from their own stream
    ntop = 160 if ctx.tier == "quick" else 8000
    for i in range(ntop):
        nodes = populated(rng)
        base = rng.choice([15000, 40000, 80000, 150000, 300000])
        relay = [a for a in nodes if rng.random() < (0.25 if i % 2 else 0.0)]
        # at most one relay per level keeps the expected copy count exact
        seenl = set()
        relay1 = []
        for a in relay:
            if net_ref.level(a) not in seenl:
                seenl.add(net_ref.level(a))
                relay1.append(a)
        mc_off = [a for a in nodes if a and rng.random() < 0.15]
        msgs = []
        for k in range(14 if ctx.tier == "quick" else 30):
            src = rng.choice([a for a in nodes if a not in mc_off])
            lvl = rng.choice([None, None, 0, 1, 2, 3, 4, -1, 7])
            n = rng.choice([0, 1, 8, 23, 24, 24, 25, 48, 100, 144, rng.randrange(0, 25)])
            typ = rng.choice([0, 7, 64, 65, 127])
            if msgs and rng.random() < 0.3:  # the same sender again, same type, right away
                src, typ, lvl = msgs[-1]["src"], msgs[-1]["type"], msgs[-1]["level"]
            msgs.append({"src": src, "level": lvl, "len": n, "type": typ})
        mlevel = {}
        if i % 5 == 2:  # some nodes override their multicast level
            for a in nodes:
                if a and rng.random() < 0.3:
                    mlevel[str(a)] = rng.choice([l for l in range(1, 5) if l != net_ref.level(a)])
            relay1 = [a for a in relay1 if a]  # a relaying master re-broadcasts to level 0: unspecified
        busy = []
        if i % 6 in (4, 2):
            # a routed ACK-typed unicast whose NETWORK_ACK is lost keeps its sender waiting while a
            # multicast to that sender's level arrives (concurrency on purpose)
            # destination: an ABSENT sibling (routed via the parent, whose forward fails), so that
            # no NETWORK_ACK ever comes back and nobody on u's level is kept busy transmitting
            cands = []
            for u in nodes:
                if not u or str(u) in mlevel or u in mc_off:
                    continue
                par = net_ref.parent(u)
                sh = 3 * (net_ref.level(u) - 1)
                for c in range(1, 6):
                    d = par | (c << sh)
                    if d not in nodes and d != net_ref.DEFAULT_ADDR:
                        cands.append((u, d))
            for _ in range(5):
                if cands:
                    u, d = rng.choice(cands)
                    others = [v for v in nodes if v != u and v not in mc_off]
                    if others:
                        busy.append({"u": u, "d": d, "v": rng.choice(others), "delay": rng.choice([8, 15, 30, 50]),
                                     "len": rng.choice([0, 8, 24])})
        stall = None
        cand = [a for a in relay1 if a and 1 <= net_ref.level(a) <= 3 and str(a) not in mlevel and a not in mc_off]
        if i % 14 in (5, 11) and cand:
            # a relay whose application stops reading: its queue fills up (6 frames) and the
            # following multicasts must still be re-broadcast to the next level
            stall = rng.choice(cand)
            senders = [a for a in nodes if a != stall and a not in mc_off]
            for k in range(9):
                msgs[k] = {"src": rng.choice(senders), "level": net_ref.level(stall),
                           "len": rng.choice([4, 8, 24]), "type": 10 + k}
        for b in busy:
            # half of them the other way round: the multicast is the main step and the level
            # member starts its (failing) unicast right after the multicast reached its radio,
            # before its application has called update()
            if rng.random() < 0.5:
                b["reverse"] = True
                b["delay"] = rng.choice([0.1, 0.2, 0.3, 0.5, 0.8, 1, 1.5, 2, 3, 4])
                if net_ref.level(b["u"]) < 4 and rng.random() < 0.7:
                    # the member's OWN hop fails (absent child): its driver goes through the software
                    # re-send loop while the multicast waits unread in its RX FIFO
                    kids = [b["u"] | (c << (3 * net_ref.level(b["u"]))) for c in range(1, 6)]
                    kids = [a for a in kids if a not in nodes and a != net_ref.DEFAULT_ADDR]
                    if kids:
                        b["d"] = rng.choice(kids)
        prefail = []
        if i % 6 == 1:
            # a fragmented unicast that fails outright (absent sibling), then a multicast to the
            # failed sender's level: the sender must be listening unacknowledged again
            cands = []
            for u in nodes:
                if not u or str(u) in mlevel or u in mc_off:
                    continue
                par = net_ref.parent(u)
                sh = 3 * (net_ref.level(u) - 1)
                for c in range(1, 6):
                    d = par | (c << sh)
                    if d not in nodes and d != net_ref.DEFAULT_ADDR:
                        cands.append((u, d))
            for _ in range(2):
                if cands:
                    u, d = rng.choice(cands)
                    others = [v for v in nodes if v != u and v not in mc_off]
                    if others:
                        if net_ref.level(u) < 4 and rng.random() < 0.7:
                            kids = [u | (c << (3 * net_ref.level(u))) for c in range(1, 6)]
                            kids = [a for a in kids if a not in nodes and a != net_ref.DEFAULT_ADDR]
                            if kids:
                                d = rng.choice(kids)  # the failing hop is the sender's own
                        prefail.append({"u": u, "d": d, "v": rng.choice(others), "ulen": rng.choice([30, 60, 10]),
                                        "len": rng.choice([4, 8, 24])})
        if i % 3 == 0:
            # an acknowledged (type 65..191) unicast over two or more hops that completes - the sender
            # has waited for its NETWORK_ACK in RX mode - then a multicast to that sender's level
            cands = [(u, d) for u in nodes for d in nodes
                     if u != d and u not in mc_off and str(u) not in mlevel and len(net_ref.tree_path(u, d)) >= 2]
            for _ in range(2):
                others = [v for v in nodes if v not in mc_off]
                if cands and len(others) > 1:
                    u, d = rng2.choice(cands)
                    prefail.append({"u": u, "d": d, "v": rng2.choice([v for v in others if v != u]),
                                    "ulen": rng2.choice([0, 8, 24]), "utype": rng2.choice([65, 100, 191]),
                                    "len": rng2.choice([4, 8, 24])})
        lazy = [a for a in nodes if i % 4 == 3 and rng.random() < 0.5]
        if lazy:
            for ms in msgs:
                ms["len"] = max(4, ms["len"])
        # some nodes were given their address more than once (the same one again, or another one of
        # a different level first) before any traffic
        readdr = {str(a): rng2.choice(["same", "same2", 0o4321, 0o5, 0o33, 0]) for a in nodes
                  if i % 3 == 1 and rng2.random() < 0.5}
        # multicasting switched off at run time and on again; the level address is re-opened the
        # documented ways: assigning multicast_level (its present value) or node_address again
        mctoggle = {str(a): rng2.choice(["level", "level_after_set_while_off", "addr"]) for a in nodes
                    if i % 4 == 2 and a not in mc_off and str(a) not in mlevel and rng2.random() < 0.5}
        yield {"nodes": nodes, "relay": relay1, "mc_off": mc_off, "msgs": msgs, "lazy": lazy,
               "mlevel": mlevel, "readdr": readdr, "mctoggle": mctoggle, "busy": busy, "stall": stall, "prefail": prefail,
               "profiles": {str(a): N.rand_profile(rng, base=base) for a in nodes},
               "seed": rng.getrandbits(30)}


def gen_fifo_pairs(ctx):
    """the receiving half on one node: a multicast frame (pipe 0) and unicast frames from the parent
    / a child (pipes 1..5) wait TOGETHER in the radio's RX FIFO when update() runs - in every order;
    the multicast is queued exactly once (and re-broadcast once by a relaying node), whatever else
    was waiting; multicasts of two senders that use the same frame id and type are both queued"""
    for a in (0o1, 0o3, 0o12, 0o45, 0o123, 0o2341):
        for relay in (False, True):
            for order in ("mu", "um", "mum", "umu", "mm", "umm", "mmu"):
                for upipe in (1, 3, 5):
                    yield {"part": "fifo_pairs", "addr": a, "relay": relay, "order": order, "upipe": upipe,
                           "seed": a * 7 + upipe, "twin_ids": order.count("m") == 2 and upipe != 3}


def run_fifo_pairs(ctx, case):
    from vsim.radio import Phantom
    from vsim.rig import Rig, repo
    m = repo()
    rig = Rig(seed=case["seed"])
    try:
        rig.air.promisc = Phantom()
        radio = rig.radio("n")
        me = case["addr"]
        o = rig.driver(radio, cls=m["rf24_network"].RF24Network, node_address=me)
        if case["relay"]:
            o.multicast_relay = True
        lvl = net_ref.level(me)
        par = net_ref.parent(me)
        others = [x for x in (0o2, 0o4, 0o5, 0o14, 0o24) if x != me]
        want_mc, want_uni = [], []
        nm = nu = 0
        for ch in case["order"]:
            if ch == "m":
                # (separate devices count their frame ids separately: two senders may use the same id)
                fid = 500 if case["twin_ids"] else 500 + nm
                body = b"mc-%d-%d" % (nm, me)
                radio.inject_rx(0, net_ref.pack_header(others[nm], 0o100, fid, 9, 0) + body)
                want_mc.append((others[nm], fid, 9, body))
                nm += 1
            else:
                body = b"uni-%d" % nu
                radio.inject_rx(case["upipe"], net_ref.pack_header(par, me, 800 + nu, 4, 0) + body)
                want_uni.append((par, 800 + nu, 4, body))
                nu += 1
        air0 = len(rig.air.log)
        rig.node.deadline = rig.node.t + 2000 * W.MS
        try:
            for _ in range(6):
                o.update()
                if not radio.rx_fifo:
                    break
        except W.VirtualDeadline:
            ctx.violation("update-no-return", "update() with %r waiting did not return" % case["order"], case)
            return
        finally:
            rig.node.deadline = None
        rig.node.idle(5 * W.MS)
        got = []
        while o.available():
            f = o.read()
            got.append((f.header.from_node, f.header.frame_id, f.header.message_type, bytes(f.message)))
        ctx.clause("waiting_together_in_the_rx_fifo")
        exp = []
        mi = ui = 0
        for ch in case["order"]:
            if ch == "m":
                exp.append(want_mc[mi]); mi += 1
            else:
                exp.append(want_uni[ui]); ui += 1
        if got != exp:
            ctx.violation("level-member-copies/waiting-with-other-frames", "node %s (relay %s) found %r waiting in its RX FIFO "
                          "(m = multicast on pipe 0, u = unicast on pipe %d%s): its application read %r, expected %r"
                          % (oct(me), case["relay"], case["order"], case["upipe"],
                             ", both multicasts carrying frame id 500" if case["twin_ids"] else "", got, exp), case)
            return
        onair = [bytes(p.payload) for p in rig.air.log[air0:] if p.kind == "data" and p.src is radio and p.attempt == 0]
        want_air = [net_ref.pack_header(x[0], 0o100, x[1], x[2], 0) + x[3] for x in want_mc] if case["relay"] and 1 <= lvl <= 3 else []
        if not 1 <= lvl <= 3:
            onair = want_air  # (what a relaying node of level 0 or 4 does is not specified)
        else:
            ctx.clause("relay_rebroadcast")
        if onair != want_air:
            ctx.violation("relay-rebroadcast/waiting-with-other-frames", "node %s (relay %s, level %d) with %r waiting re-broadcast %d "
                          "frames, expected %d" % (oct(me), case["relay"], lvl, case["order"], len(onair), len(want_air)), case)
            return
        ctx.nontrivial(("fifo_pairs", me, case["relay"], case["order"], case["upipe"]))
    finally:
        rig.close()


def run_case(ctx, case):
    if case.get("part") == "fifo_pairs":
        return run_fifo_pairs(ctx, case)
    net = N.Net(seed=case["seed"])
    try:
        _run(ctx, case, net)
    finally:
        net.close()


def _run(ctx, case, net):
    nodes = case["nodes"]
    for a in nodes:
        def setup(o, a=a):
            via = case.get("readdr", {}).get(str(a))
            if via is not None:
                for x in {"same": [a], "same2": [a, a]}.get(via, [via, a]):
                    o.node_address = x
            how = case.get("mctoggle", {}).get(str(a))
            if how:
                o.allow_multicast = False
                if how == "level_after_set_while_off":
                    o.multicast_level = net_ref.level(a)
                else:
                    o.node_address = a
                o.allow_multicast = True
                if how == "addr":
                    o.node_address = a
                else:
                    o.multicast_level = net_ref.level(a)
                ctx.count("nodes_with_multicasting_switched_off_and_on")
            if a in case["mc_off"]:
                o.allow_multicast = False
                o.node_address = a
            if a in case["relay"]:
                o.multicast_relay = True
            if str(a) in case.get("mlevel", {}):
                o.multicast_level = case["mlevel"][str(a)]
        nn = net.add("net", a, profile=case["profiles"][str(a)], setup=setup)
        if a in case.get("lazy", []):
            nn.lazy_ns = 40 * W.MS
        if a == case.get("stall"):
            nn.lazy_ns = 1 << 60  # reads nothing until the final drain
    # the level a node multicasts on / listens on / relays from is its multicast_level
    level_of = {a: case.get("mlevel", {}).get(str(a), net_ref.level(a)) for a in nodes}
    c07 = {"n": 0}

    def mon(nn, op, outcome):
        c07["n"] += 1
        why = N.listening_invariant(nn)
        if why:
            ctx.cross_obs("C07", "not-listening-after-" + op, "%s: %s" % (oct(nn.obj.node_address), why))
    net.on_return.append(mon)
    sent = []
    kept = {}
    for k, ms in enumerate(case["msgs"]):
        payload = msg_bytes(k + 1, ms["len"])

        def fn(nn, ms=ms, payload=payload, k=k):
            if case["seed"] % 3 == 0:
                # the application keeps one bytearray per node and fills it in place for every message
                buf = kept.setdefault(ms["src"], bytearray())
                buf[:] = payload
                payload = buf
                ctx.count("multicasts_from_a_buffer_refilled_in_place")
            if ms["level"] is None:
                r = nn.obj.multicast(payload, ms["type"])
            else:
                r = nn.obj.multicast(payload, ms["type"], ms["level"])
            ms["_fid"] = nn.obj.frame_buf.header.frame_id
            return r
        net.steps.append({"who": ms["src"], "name": "multicast", "fn": fn, "deadline_ms": 3000,
                          "gap": 12 * W.MS})
        sent.append(payload)
    Hdr = net.m["structs"].RF24NetworkHeader
    companions = []
    for b in case.get("busy", []):
        k = len(case["msgs"]) + len(companions) + 1
        ms = {"src": b["v"], "level": level_of[b["u"]], "len": b["len"], "type": 9, "companion_of": b["u"]}
        payload = msg_bytes(k, max(4, ms["len"]))
        ms["len"] = len(payload)

        def main_fn(nn, b=b):
            return nn.obj.send(Hdr(b["d"], 70), b"busy-unicast")

        def comp_fn(nn, ms=ms, payload=payload):
            return nn.obj.multicast(payload, ms["type"], ms["level"])
        if b.get("reverse"):
            comp = {"who": b["u"], "name": "send", "fn": main_fn, "delay_ms": b["delay"]}
            holder = {"step": len(net.steps)}
            net.steps.append({"who": b["v"], "name": "multicast", "fn": comp_fn, "deadline_ms": 4000,
                              "gap": 12 * W.MS, "companion": comp})
            companions.append((ms, payload, holder))
            continue
        comp = {"who": b["v"], "name": "multicast", "fn": comp_fn, "delay_ms": b["delay"]}
        net.steps.append({"who": b["u"], "name": "send", "fn": main_fn, "deadline_ms": 4000,
                          "gap": 12 * W.MS, "companion": comp})
        companions.append((ms, payload, comp))
    for b in case.get("prefail", []):
        k = len(case["msgs"]) + len(companions) + 1
        ms = {"src": b["v"], "level": level_of[b["u"]], "len": b["len"], "type": 11, "after_failed_unicast_of": b["u"]}
        payload = msg_bytes(k, max(4, ms["len"]))
        ms["len"] = len(payload)

        def fail_fn(nn, b=b):
            if "utype" in b:
                ctx.count("multicasts_after_an_acknowledged_routed_unicast")
            return nn.obj.send(Hdr(b["d"], b.get("utype", 1)), bytes(b["ulen"]))

        def mc_fn(nn, ms=ms, payload=payload):
            return nn.obj.multicast(payload, ms["type"], ms["level"])
        net.steps.append({"who": b["u"], "name": "send", "fn": fail_fn, "deadline_ms": 6000, "gap": 12 * W.MS})
        holder = {"step": len(net.steps)}
        net.steps.append({"who": b["v"], "name": "multicast", "fn": mc_fn, "deadline_ms": 4000, "gap": 12 * W.MS})
        companions.append((ms, payload, holder))
    if not net.run(wall_timeout=120):
        ctx.count("watchdog_inconclusive")
        return
    for nn in net.nodes:
        if nn.exc is not None:
            ctx.violation("exception-in-node", "node %s: %r" % (oct(nn.obj.node_address), nn.exc), case)
            return
    # the concurrent multicasts are judged like the others (with their own records)
    extra_recs = []
    for ms, payload, comp in companions:
        if "step" in comp:  # the multicast was a main step: its record is among the results
            found = [r for r in net.results if r["i"] == comp["step"]]
            comp = {"rec": found[0] if found else None}
        if comp.get("rec") is not None:
            r = dict(comp["rec"])
            r["i"] = len(case["msgs"]) + len(extra_recs)
            r["companion"] = True
            extra_recs.append((r, ms, payload))
    # listening table facts
    for a in case["mc_off"]:
        ctx.clause("multicast_off_not_listening")
        r = net.bykey[a].radio
        lvl_addr = net_ref.level_address(net_ref.level(a))
        if any(r.pipe_addr(p) == lvl_addr and r.r[2] & (1 << p) for p in range(6)):
            ctx.violation("multicast-off-still-listening", "node %s has allow_multicast off but "
                          "listens on its level's shared address" % oct(a), case)
            return
    all_msgs = list(case["msgs"]) + [ms for _, ms, _ in extra_recs]
    all_sent = list(sent) + [pl for _, _, pl in extra_recs]
    ordinary = [r for r in net.results if r["i"] < len(case["msgs"])]
    records = ordinary + [r for r, _, _ in extra_recs]
    sent = all_sent
    for rec in records:
        ms = all_msgs[rec["i"]]
        src = ms["src"]
        if rec["exc"]:
            ctx.violation("multicast-raised", "multicast from %s level %r: %s"
                          % (oct(src), ms["level"], rec["exc"]), case)
            return
        target = level_of[src] if ms["level"] is None else min(4, max(0, ms["level"]))
        if rec.get("companion"):
            pk = [p for p in net.air.log[rec["air0"]:] if p.t0 <= rec["t_ret"] + 12 * W.MS]
        else:
            nxt = [r["air0"] for r in net.results if r["i"] == rec["i"] + 1]
            pk = net.air.log[rec["air0"]:(nxt[0] if nxt else None)]
        src_radio = net.bykey[src].radio
        mine = [p for p in pk if p.kind == "data" and p.src is src_radio]
        nfrag = max(1, (ms["len"] + 23) // 24)
        fragged = ms["len"] > 24
        mine = [p for p in mine if p.addr == mine[0].addr] if mine else mine
        # a fragment of an unacknowledged stream that some node of the addressed level (or a
        # relay's next level) did not accept: no flow control, half-duplex relays, 3-deep FIFO
        members0 = [a for a in nodes if level_of[a] == target and a != src and a not in case["mc_off"]]
        missed = False
        for p in pk:
            if p.kind != "data":
                continue
            lv = [a for a in nodes if a not in case["mc_off"]
                  and net.bykey[a].radio.pipe_addr(0) == p.addr and net.bykey[a].radio is not p.src]
            acc = {n for n, o in p.outcomes if o.startswith("rx:")}
            if any(net.bykey[a].radio.name not in acc for a in lv):
                missed = True
        mech = ""
        if fragged and missed:
            mech = "/fragmented-unacknowledged-stream"
        # ---- unacknowledged, one packet per frame
        ctx.clause("unacknowledged")
        acks = [p for p in pk if p.kind == "ack" and p.for_pkt in mine]
        if len(mine) != nfrag or any(p.attempt for p in mine) or acks:
            ctx.violation("multicast-acknowledged-or-retransmitted",
                          "multicast from %s level %r (%d bytes): %d packets from the sender for %d "
                          "frame(s), %d retransmissions, %d ACK packets on air"
                          % (oct(src), ms["level"], ms["len"], len(mine), nfrag,
                             sum(1 for p in mine if p.attempt), len(acks)), case)
            return
        if mine and mine[0].addr != net_ref.level_address(target)[:5]:
            # compare with the address the target level actually listens on (ground truth)
            members = [a for a in nodes if level_of[a] == target and a not in case["mc_off"]]
            if members and net.bykey[members[0]].radio.pipe_addr(0) != mine[0].addr:
                ctx.violation("multicast-wrong-address", "multicast(level=%r) from %s went to %s, "
                              "level %d listens on %s" % (ms["level"], oct(src), mine[0].addr.hex(), target,
                                                          net.bykey[members[0]].radio.pipe_addr(0).hex()), case)
                return
        # ---- who got it
        copies = {}
        t_lo = rec["t_call"]
        nxt_t = [r["t_call"] for r in records if r["i"] == rec["i"] + 1 and not r.get("companion")]
        t_hi = nxt_t[0] if nxt_t else 1 << 62
        for nn in net.nodes:
            for e in nn.applog:
                # multicast() re-uses the frame id left in frame_buf, so copies are attributed
                # by the virtual-time window of the step (one multicast at a time)
                if ms["len"] >= 4:
                    hit = e["from"] == src and e["to"] == 0o100 and (
                        e["msg"] == sent[rec["i"]] or (e["msg"][:4] == sent[rec["i"]][:4]))
                else:
                    # too short to carry an id: same origin, length and type inside the step's window
                    hit = (e["from"] == src and e["to"] == 0o100 and t_lo <= e["t"] < t_hi
                           and len(e["msg"]) == ms["len"] and e["type"] == ms["type"])
                if hit:
                    if e["msg"] != sent[rec["i"]] or e["type"] != ms["type"]:
                        ctx.violation("multicast-corrupted" + mech, "node %s read %d bytes type %d for "
                                      "a %d-byte type-%d multicast" % (oct(nn.obj.node_address), len(e["msg"]),
                                                                       e["type"], ms["len"], ms["type"]), case)
                        return
                    copies[nn.obj.node_address] = copies.get(nn.obj.node_address, 0) + 1
        # expected receivers: level members, then relays level by level
        expect = {a for a in nodes if level_of[a] == target and a != src and a not in case["mc_off"]}
        relayed_levels = set()
        frontier = set(expect)
        lvl = target
        while True:
            rel = [a for a in frontier if a in case["relay"] and 1 <= level_of[a] <= 3]
            if not rel:
                break
            lvl += 1
            relayed_levels.add(lvl)
            frontier = {a for a in nodes if level_of[a] == lvl and a not in case["mc_off"]}
            expect |= frontier
            if lvl >= 4:
                break
        ctx.clause("level_members_once")
        members = {a for a in nodes if level_of[a] == target and a != src and a not in case["mc_off"]}
        if rec.get("companion"):
            # concurrent traffic: a member that was transmitting at that moment was not listening;
            # only "never more than one copy" is judged for it
            heard = {n for p in mine for n, o in p.outcomes if o.startswith("rx:")}
            bad = [a for a in members if copies.get(a, 0) > 1
                   or (net.bykey[a].radio.name in heard and copies.get(a, 0) != 1 and a != case.get("stall"))]
        else:
            # a node whose application does not read keeps at most max_queue_size frames: for it
            # only "never more than one copy" is judged (the bounded queue is C12's subject)
            st_ = case.get("stall")
            bad = [a for a in members if (copies.get(a, 0) != 1 if a != st_ else copies.get(a, 0) > 1)]
        if bad:
            ctx.violation("level-member-copies" + mech,
                          "multicast from %s to level %d (%d bytes, arg %r): node %s of that level "
                          "got %d copies" % (oct(src), target, ms["len"], ms["level"], oct(bad[0]),
                                             copies.get(bad[0], 0)), case,
                          {"air": [p.brief() for p in pk[:10]]})
            if not mech:
                return
            continue
        ctx.clause("other_levels_clean")
        stray = [a for a in copies if a not in expect]
        if stray:
            ctx.violation("other-level-received", "multicast from %s to level %d also reached node "
                          "%s (level %d); relays %r" % (oct(src), target, oct(stray[0]),
                                                        level_of[stray[0]], [oct(a) for a in case["relay"]]), case)
            return
        # ---- relays: one re-broadcast per frame to the next level, and queued locally
        for a in members:
            if a in case["relay"] and 1 <= level_of[a] <= 3:
                ctx.clause("relay_rebroadcast")
                rr = net.bykey[a].radio
                rb = [p for p in pk if p.kind == "data" and p.src is rr]
                want_addr = net_ref.level_address(level_of[a] + 1)
                nxt_members = [b for b in nodes if level_of[b] == level_of[a] + 1 and b not in case["mc_off"]]
                if nxt_members:
                    want_addr = net.bykey[nxt_members[0]].radio.pipe_addr(0)
                if len(rb) != nfrag or any(p.addr != want_addr for p in rb):
                    ctx.violation("relay-rebroadcast" + mech, "relay %s re-broadcast %d packets (expected %d) "
                                  "to %r, level %d listens on %s"
                                  % (oct(a), len(rb), nfrag, sorted({p.addr.hex() for p in rb}),
                                     level_of[a] + 1, want_addr.hex()), case)
                    if not mech:
                        return
        if mine:
            cls = "master" if src == 0 else ("0o1" if src == 1 else ("L1" if level_of[src] == 1 else "deep"))
            ctx.nontrivial((cls, ms["level"], "frag" if fragged else ("0" if not ms["len"] else "1f"),
                            tuple(sorted(level_of[a] for a in case["relay"])), bool(case["mc_off"]),
                            case["profiles"][str(src)]["spi_overhead"]))
    # ---- nothing reaches an application that nobody sent (all traffic here is the multicasts
    # above; the unicasts of the concurrent scenarios go to absent nodes)
    ctx.clause("only_sent_messages_delivered")
    known_payloads = set(bytes(pl) for pl in sent)
    # (the acknowledged routed unicasts that precede some multicasts reach their one destination)
    unicasts = {(b["u"], b["d"], b["utype"], bytes(b["ulen"])) for b in case.get("prefail", []) if "utype" in b}
    for nn in net.nodes:
        for e in nn.applog:
            if (e["from"], e["to"], e["type"], e["msg"]) in unicasts and nn.obj.node_address == e["to"]:
                continue
            if e["msg"] not in known_payloads:
                ctx.violation("unsent-message-delivered", "node %s's application read a %d-byte type-%d message from %s "
                              "(to %s) that nobody sent" % (oct(nn.obj.node_address), len(e["msg"]), e["type"],
                                                           oct(e["from"]), oct(e["to"])), case, {"msg": e["msg"].hex()})
                return
    ctx.count("multicasts_judged", len(net.results))
    ctx.distinct("air_order_digests", net.air_digest())
    for st in net.radio_states():
        ctx.distinct("radio_states", st)
    ctx.sample({"nodes": [oct(a) for a in nodes], "relay": [oct(a) for a in case["relay"]],
                "mc_off": [oct(a) for a in case["mc_off"]], "multicasts": len(net.results),
                "air_packets": len(net.air.log), "first": case["msgs"][:2]})
