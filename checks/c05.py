"""C05 - a network message reaches its destination exactly once, intact, over any tree.
DESIGN §4/C05."""
import struct

from checks import netcommon as N
from refmodels import net_ref
from vsim import world as W

PROP = "C05"
RULE = ("random parent-closed topologies (2..12 nodes, depth <= 4; chains, fans, mixed) of "
        "RF24Network / RF24NetworkRoutingOnly / RF24Mesh-master nodes, each running its own "
        "update()/read() loop in its own scheduler thread with a seeded MCU cost profile; "
        "messages (length 0..144 stratified around multiples of 24, user types 0..127 stratified "
        "around 64/65, unique-id contents) are written one at a time between sampled "
        "(source, destination) pairs on the ideal medium and judged at virtual-time quiescence "
        "from the application logs of ALL nodes, the write() result and the air log. Under the "
        "hostile medium (loss + collisions + heterogeneous profiles) only no-corruption and "
        "no-misdelivery are judged. Non-trivial: >=1 frame crossed the air and quiescence was "
        "reached; distinct = distinct (topology shape, src/dst levels, hops, length class, "
        "type class, profile class, medium).")
RULE += (" Later rounds added: nodes on the route configured with allow_multicast off (sweep over last/first router, ends, everybody; a third of the random topologies); re-used header objects (identity = origin, frame id, embedded message id), a relay whose application stops reading, multicast_level re-assigned on relays, systematic sweeps (every type over a 3-hop route, every length over a direct link, a deep tree with level overrides), peek() before read(), networks whose address prefix and suffix bytes were assigned after construction, senders whose application is busy for 15..60 ms after the call (what came back for them waits in the radio).")
REQUIRED = {"delivered_exactly_once": 300, "bystanders_clean": 300, "write_true": 300,
            "onair_le_32": 300, "c07_listening": 3000}
ASSUMPTIONS = ["ideal medium (no loss, no collisions) and homogeneous MCU profiles for the "
               "liveness clauses; messages are sent one at a time",
               "fragmented ACK-typed messages over >=2 hops: see known_findings (if listed)"]
BUDGET = {"quick": 480, "thorough": 900}
SHARDS = {"quick": 16, "thorough": 16}


def msg_bytes(mid, n):
    words = b"".join(struct.pack("<HH", mid & 0xFFFF, off) for off in range((n + 3) // 4))
    return words[:n]


def _mid(msg):
    """the message id embedded in contents of >= 4 bytes (header objects may be re-used, so the
    frame id alone does not identify a message)"""
    return struct.unpack("<H", bytes(msg[:2]))[0] if len(msg) >= 4 else None


def len_class(n):
    if n == 0:
        return "0"
    if n <= 24:
        return "1f"
    return "%df%s" % ((n + 23) // 24, "=" if n % 24 == 0 else "")


def type_class(t):
    return "ack" if 65 <= t <= 127 else "plain"


def gen_cases(ctx):
    yield from gen_sweeps(ctx)
    rng = ctx.sub_rng("c05")
    rng2 = ctx.sub_rng("c05b")  # later additions draw from their own stream
    rng3 = ctx.sub_rng("c05c")
    ntop = 48 if ctx.tier == "quick" else 4000
    tperm = list(range(128))
    rng.shuffle(tperm)
    tcount = [0]
    pcount = [0]
    for i in range(ntop):
        hostile = (i % 8 == 7)
        nodes = N.tree_topology(rng, 2, 12 if i % 3 else 6)
        base = rng.choice([15000, 40000, 80000, 80000, 150000, 150000, 300000])
        kinds = {}
        profiles = {}
        for a in nodes:
            leaf = not any(net_ref.parent(b) == a for b in nodes if b)
            kinds[a] = rng.choice(["net", "net", "router"]) if not leaf else "net"
            if a == 0 and rng.random() < 0.2:
                kinds[a] = "mesh"
            profiles[a] = N.rand_profile(rng, base=base if not hostile
                                         else rng.choice([15000, 300000]))
        frag_off = [a for a in nodes if rng.random() < 0.15]
        msgs = []
        ends = [a for a in nodes if kinds[a] in ("net", "mesh")]
        nmsg = 30 if ctx.tier == "quick" else 60
        for k in range(nmsg):
            src = rng.choice([a for a in ends if kinds[a] == "net"] or ends)
            if kinds[src] != "net":
                continue
            dst = rng.choice([a for a in ends if a != src] or [src])
            if dst == src:
                continue
            lim = 24 if (src in frag_off or dst in frag_off) else 144
            n = rng.choice([0, 1, 23, 24, 25, 47, 48, 49, 72, 96, 120, 143, 144,
                            rng.randrange(0, 145), rng.randrange(0, 145)])
            n = min(n, lim)
            # every user type 0..127 comes round (a permutation is cycled through), mixed with
            # the boundary values around the acknowledged range
            tcount[0] += 1
            if tcount[0] % 4 == 0:
                t = rng.choice([0, 1, 63, 64, 65, 66, 127])
            elif tcount[0] % 4 == 1:
                t = rng.randrange(2, 9)  # values a fragment counter also takes
            else:
                pcount[0] += 1
                t = tperm[pcount[0] % 128]
            ms = {"src": src, "dst": dst, "len": n, "type": t}
            prev = [x for x in msgs if x["src"] == src]
            if prev and rng.random() < 0.25:
                # the application sends with the header object it used last time (same frame id,
                # destination and type); contents carry their own id, so >= 4 bytes
                ms.update(dst=prev[-1]["dst"], type=prev[-1]["type"], reuse=True, len=max(4, n))
                if prev[-1]["dst"] in frag_off or src in frag_off:
                    ms["len"] = min(ms["len"], 24)
            if rng2.random() < 0.3 and not hostile:
                # the sender's application is busy for a while after the call (it polls the network
                # late: whatever came back for it meanwhile waits in its radio)
                ms["busy_after"] = rng2.choice([15, 30, 60])
            msgs.append(ms)
        stall = None
        relays = [a for a in nodes if kinds[a] == "net" and any(net_ref.parent(b) == a for b in nodes if b)]
        if i % 6 == 2 and relays and not hostile:
            # a relay whose application stops reading: six messages fill its queue, after which
            # it must go on forwarding other nodes' traffic (nothing more is addressed to it)
            stall = rng.choice(relays)
            srcs = [a for a in ends if a != stall and kinds[a] == "net"]
            if srcs:
                head = []
                for _ in range(6):
                    hs = rng.choice(srcs)
                    head.append({"src": hs, "dst": stall, "type": rng.choice([1, 66]),
                                 "len": rng.choice([0, 5, 24] if (hs in frag_off or stall in frag_off) else [0, 5, 24, 60])})
                rest = [x for x in msgs if x["dst"] != stall and x["src"] != stall and not x.get("reuse")]
                through = [x for x in rest if stall in net_ref.tree_path(x["src"], x["dst"])[:-1]]
                msgs = head + through + [x for x in rest if x not in through][:10]
            else:
                stall = None
        addrbytes = None
        if i % 4 == 1 and "mesh" not in kinds.values():
            # the whole network uses its own address bytes, assigned after construction and applied
            # by re-assigning node_address (the documented way)
            b7 = rng2.sample(range(1, 255), 7)
            addrbytes = {"prefix": b7[0], "suffix": b7[1:]}
        yield {"nodes": nodes, "kinds": {str(k): v for k, v in kinds.items()}, "addrbytes": addrbytes,
               "profiles": {str(k): v for k, v in profiles.items()}, "frag_off": frag_off,
               "msgs": msgs, "seed": rng.getrandbits(30), "hostile": hostile, "stall": stall,
               # multicast_level re-assigned on some nodes (it has no say in unicast routing)
               "mlevel": {str(a): rng.choice([l for l in range(0, 5) if l != net_ref.level(a)])
                          for a in nodes if i % 3 == 1 and kinds[a] != "mesh" and rng.random() < 0.35},
               "id_start": {str(a): rng.choice([0, 0, 7, 65530]) for a in nodes},
               # some nodes run with allow_multicast off
               "mc_off": [a for a in nodes if i % 3 == 2 and kinds[a] != "mesh" and rng3.random() < 0.4]}


def gen_sweeps(ctx):
    """systematic sweeps on a fixed small tree: every user type 0..127 over a 3-hop route through
    two full (queueing) relays, and every length 0..144 over a direct link (fragmented multi-hop
    routes are the known finding and would hide what a length-dependent change does)"""
    nodes = [0, 0o1, 0o2, 0o12]
    base = {"nodes": nodes, "kinds": {str(a): "net" for a in nodes}, "frag_off": [], "hostile": False,
            "stall": None, "id_start": {str(a): 0 for a in nodes}}
    prof = lambda k: {str(a): N.rand_profile(ctx.sub_rng("c05s", k, a), base=40000) for a in nodes}
    for k in range(4):
        msgs = [{"src": 0o1 if t % 2 else 0o12, "dst": 0o12 if t % 2 else 0o1, "len": 5 + t % 7, "type": t}
                for t in range(k * 32, k * 32 + 32)]
        yield dict(base, msgs=msgs, seed=900 + k, profiles=prof(k))
    # relays whose multicast_level was re-assigned below / above their tree level route as before
    deep = [0, 0o1, 0o2, 0o12, 0o112, 0o3112]
    for k, ml in enumerate(({"2": 0, "10": 1}, {"2": 3, "74": 0}, {"10": 0, "2": 0, "74": 1})):
        msgs = []
        for j, (a, b) in enumerate(((0o1, 0o112), (0o112, 0o1), (0, 0o3112), (0o3112, 0), (0o1, 0o3112), (0o12, 0o3112))):
            msgs.append({"src": a, "dst": b, "len": [5, 20, 0][j % 3], "type": [1, 66][j % 2]})
        yield dict(base, nodes=deep, kinds={str(a): "net" for a in deep}, id_start={str(a): 0 for a in deep},
                   msgs=msgs, seed=980 + k, mlevel=ml,
                   profiles={str(a): N.rand_profile(ctx.sub_rng("c05d", k, a), base=40000) for a in deep})
    # nodes on the route configured with allow_multicast off (they do not listen on the level address;
    # routing and NETWORK_ACKs are as before): last router, first router, both ends, everybody
    for k, off in enumerate(([0o12], [0o2], [0o112], [0o2, 0o12, 0o112], [0o1, 0o3112], deep[1:])):
        msgs = []
        for j, (a, b) in enumerate(((0o1, 0o112), (0o112, 0o1), (0, 0o3112), (0o3112, 0), (0o1, 0o3112), (0o12, 0o3112),
                                    (0o3112, 0o1), (0, 0o112))):
            msgs.append({"src": a, "dst": b, "len": [5, 20, 0, 24][j % 4], "type": [66, 1, 127, 65, 100][j % 5]})
        yield dict(base, nodes=deep, kinds={str(a): "net" for a in deep}, id_start={str(a): 0 for a in deep},
                   msgs=msgs, seed=990 + k, mc_off=off,
                   profiles={str(a): N.rand_profile(ctx.sub_rng("c05m", k, a), base=40000) for a in deep})
    lens = list(range(145))
    for k in range(5):
        msgs = [{"src": 0o1 if n % 2 else 0, "dst": 0 if n % 2 else 0o1, "len": n, "type": [1, 2, 7, 64, 65, 127][n % 6]}
                for n in lens[k * 29:(k + 1) * 29]]
        yield dict(base, msgs=msgs, seed=950 + k, profiles=prof(10 + k))


def run_case(ctx, case):
    net = N.Net(seed=case["seed"])
    try:
        _run(ctx, case, net)
    finally:
        net.close()


def _run(ctx, case, net):
    import random
    m = net.m
    Hdr = m["structs"].RF24NetworkHeader
    nodes = case["nodes"]
    hostile = case["hostile"]
    ab = case.get("addrbytes")
    for a in nodes:
        def setup(o, a=a):
            if ab:
                o.address_prefix = bytearray([ab["prefix"]])
                o.address_suffix = bytearray(ab["suffix"])
                o.node_address = a
                ctx.count("nodes_with_custom_address_bytes")
        nn = net.add(case["kinds"][str(a)], a if case["kinds"][str(a)] != "mesh" else ("id", 0),
                     profile=case["profiles"][str(a)], id_start=case["id_start"][str(a)], setup=setup)
        if case["kinds"][str(a)] == "mesh":
            net.bykey[a] = nn
            nn.key = a
        if a in case["frag_off"]:
            nn.obj.fragmentation = False
        if a in case.get("mc_off", []):
            nn.obj.allow_multicast = False
            nn.obj.node_address = a  # the documented way to apply it
            ctx.count("nodes_with_multicasting_off")
        if a == case.get("stall"):
            nn.lazy_ns = 1 << 60  # its application reads nothing until the final drain
        if str(a) in case.get("mlevel", {}):
            nn.obj.multicast_level = case["mlevel"][str(a)]
    if hostile:
        frng = random.Random(case["seed"] ^ 0x10551)
        net.air.collisions = True
        net.air.fault = lambda pkt, rx: frng.random() < 0.08
    # C07 monitor rides along
    c07 = {"n": 0}

    def mon(nn, op, outcome):
        c07["n"] += 1
        why = N.listening_invariant(nn)
        if why:
            ctx.cross_obs("C07", "not-listening-after-" + op, "%s on node %s: %s"
                          % (op, oct(nn.obj.node_address), why))
    net.on_return.append(mon)
    sent = []
    last_hdr = {}
    for k, ms in enumerate(case["msgs"]):
        payload = msg_bytes(k + 1, ms["len"])

        def fn(nn, ms=ms, payload=payload):
            h = last_hdr.get(ms["src"]) if ms.get("reuse") else None
            if h is None:
                h = Hdr(ms["dst"], ms["type"])
            else:
                ctx.count("header_objects_reused")
            last_hdr[ms["src"]] = h
            ms["_fid"] = h.frame_id
            return nn.obj.send(h, payload)
        if ms.get("busy_after"):
            ctx.count("senders_busy_after_the_call")
        net.steps.append({"who": ms["src"], "name": "send", "fn": fn, "deadline_ms": 8000,
                          "busy_after_ms": ms.get("busy_after")})
        sent.append(payload)
    ok = net.run(wall_timeout=150)
    if not ok:
        ctx.count("watchdog_inconclusive")
        return
    ctx.clause("c07_listening", c07["n"])
    ctx.count("baton_switches", net.world.n_switches)
    ctx.count("air_packets", len(net.air.log))
    for nn in net.nodes:
        if nn.exc is not None:
            ctx.violation("exception-in-node", "node %s: %r" % (oct(nn.obj.node_address), nn.exc), case)
            return
    # ---- offline judging
    for nn in net.nodes:
        if nn.peek_bad:
            pk, e = nn.peek_bad[0]
            ctx.violation("peek-differs-from-read", "node %s: peek() showed (from %s id %d type %d, %d bytes) but "
                          "read() returned (from %s id %d type %d, %d bytes)"
                          % (oct(nn.obj.node_address), oct(pk[0]), pk[2], pk[3], len(pk[4]),
                             oct(e["from"]), e["id"], e["type"], len(e["msg"])), case)
            return
    for p in net.air.log:
        if len(p.payload) > 32:
            ctx.violation("onair-over-32", "on-air packet of %d bytes" % len(p.payload), case)
            return
    ctx.clause("onair_le_32", len(net.air.log))
    bypayload = {}
    for nn in net.nodes:
        for e in nn.applog:
            bypayload.setdefault((e["from"], e["id"], _mid(e["msg"])), []).append((nn.obj.node_address, e))
    sent_set = {(ms["src"], ms.get("_fid"), _mid(sent[k])): (k, ms) for k, ms in enumerate(case["msgs"])}
    # corruption / mis-delivery: judged on every medium
    for (frm, fid, mid), lst in bypayload.items():
        ent = sent_set.get((frm, fid, mid))
        for a, e in lst:
            if ent is None or e["msg"] != sent[ent[0]] or e["type"] != ent[1]["type"]:
                why = "never sent" if ent is None else (
                    "sent as %d bytes type %d" % (len(sent[ent[0]]), ent[1]["type"]))
                frag = ent is not None and len(sent[ent[0]]) > 24
                hops = len(net_ref.tree_path(ent[1]["src"], ent[1]["dst"])) if ent else 0
                ctx.violation("corrupt-message-delivered" + ("/fragmented+multihop" if frag and hops >= 2 else ""),
                              "node %s's application read a %d-byte message type %d from %s id %d "
                              "(%s)" % (oct(a), len(e["msg"]), e["type"], oct(frm), fid, why),
                              case, {"msg": e["msg"].hex()})
                return
            if a != ent[1]["dst"]:
                ctx.violation("misdelivered", "message for %s (from %s) was handed to the "
                              "application of node %s" % (oct(ent[1]["dst"]), oct(frm), oct(a)), case)
                return
    if net.unquiet_steps:
        ctx.count("steps_without_quiescence", net.unquiet_steps)
    for rec in net.results:
        ms = case["msgs"][rec["i"]]
        payload = sent[rec["i"]]
        hops = len(net_ref.tree_path(ms["src"], ms["dst"]))
        pcls = "hostile" if hostile else "homog"
        got = bypayload.get((ms["src"], ms.get("_fid"), _mid(payload)), [])
        at_dst = [a for a, _ in got if a == ms["dst"]]
        onair = rec["air1"] > rec["air0"]
        if rec["exc"]:
            ctx.violation("write-raised" if rec["exc"] != "deadline" else "write-no-return",
                          "send %s->%s len %d type %d: %s" % (oct(ms["src"]), oct(ms["dst"]),
                                                              ms["len"], ms["type"], rec["exc"]), case)
            return
        if hostile:
            continue
        fragged = ms["len"] > 24
        mech = ""
        nxt = [r["air0"] for r in net.results if r["i"] == rec["i"] + 1]
        nacks = [p for p in net.air.log[rec["air0"]:(nxt[0] if nxt else None)] if p.kind == "data"
                 and len(p.payload) >= 8 and p.payload[6] == net_ref.NETWORK_ACK]
        if fragged and hops >= 2 and nacks:
            # fragments are streamed without per-fragment NETWORK_ACK flow control while the
            # relays answer every fragment with a NETWORK_ACK (see known_findings.json)
            mech = "/fragmented+multihop"
        ctx.clause("delivered_exactly_once")
        if len(at_dst) != 1:
            ctx.violation(("not-delivered" if not at_dst else "delivered-twice") + mech,
                          "message %d (%s->%s, %d hops, len %d, type %d) was delivered %d times "
                          "to its destination (write returned %r)"
                          % (rec["i"], oct(ms["src"]), oct(ms["dst"]), hops, ms["len"], ms["type"],
                             len(at_dst), rec["ret"]), case,
                          {"air": [p.brief() for p in net.air.log[rec["air0"]:rec["air1"]][:12]]})
            if mech:
                continue  # known mechanism: keep judging the other messages of the scenario
            return
        ctx.clause("bystanders_clean")
        ctx.clause("write_true")
        if rec["ret"] is not True:
            ctx.violation("write-false" + mech,
                          "message %d (%s->%s, %d hops, len %d, type %d) was delivered but write() "
                          "returned %r" % (rec["i"], oct(ms["src"]), oct(ms["dst"]), hops, ms["len"],
                                           ms["type"], rec["ret"]), case)
            if mech:
                continue
            return
        seq = tuple((net_ref.level(net.rig.radios.index(p.src) and 0 or 0) if False else p.src.name == net.bykey[ms["src"]].radio.name,
                     p.kind, p.attempt, tuple(o[1].split(":")[0] for o in p.outcomes))
                    for p in net.air.log[rec["air0"]:rec["air1"]])
        ctx.distinct("per_message_air_sequences", (hops, seq))
        if onair:
            ctx.nontrivial((len(case["nodes"]), max(net_ref.level(a) for a in case["nodes"]),
                            net_ref.level(ms["src"]), net_ref.level(ms["dst"]), hops,
                            len_class(ms["len"]), type_class(ms["type"]), pcls,
                            case["kinds"][str(ms["src"])], case["kinds"][str(ms["dst"])]))
    ctx.count("messages_judged", len(net.results))
    ctx.distinct("air_order_digests", net.air_digest())
    for st in net.radio_states():
        ctx.distinct("radio_states", st)
    ctx.sample({"nodes": [oct(a) for a in nodes], "kinds": case["kinds"], "hostile": hostile,
                "messages": len(net.results), "air_packets": len(net.air.log),
                "baton_switches": net.world.n_switches,
                "first": case["msgs"][:2]})
