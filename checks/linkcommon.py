"""Shared link-level harness for C01 and C20: a transmitting DUT and a receiving
peer (full or lite driver on either end) on one simulated medium."""
from vsim import world as W
from vsim.rig import Rig, repo

PP_ADDR = b"\xD7\x31\x41\x59\x26"
PIPE_ADDRS = [b"\xA0\x11\x22\x33\x44", b"\xB1\x55\x66\x77\x88", b"\xB2", b"\xB3", b"\xB4", b"\xB5"]


def full_addr(i):
    return PIPE_ADDRS[i] if i < 2 else PIPE_ADDRS[i] + PIPE_ADDRS[1][1:]


def cls_of(kind):
    m = repo()
    return m["rf24"].RF24 if kind == "full" else m["rf24_lite"].RF24


ALT_RX0 = b"\x5C\x0F\xF1\xCE\x77"  # what a sender listens to on pipe 0 when it also receives

PRE_OPS = ("tx_rx0", "tx_toggle", "tx_reenter", "rx_toggle", "rx_reenter", "tx_reopen_short")


def configure(obj, kind, case, side="tx"):
    """apply the common link configuration through the public API"""
    obj.channel = case["channel"]
    obj.data_rate = case["rate"]
    # "aw_first": the pipes are opened while another address width is in effect; the common
    # width is assigned afterwards (Pair.__init__) without re-opening anything
    obj.address_length = case.get("aw_first") or case["aw"]
    # "static_cfg": the payload-length mode configured first; a later `ack = True` ("ack_on"
    # history) switches the link to dynamic payloads, which is what case["static"] then says
    static = case.get("static_cfg", case["static"])
    if kind == "full":
        if case["crc"] == 0 or not case["auto_ack"]:
            obj.auto_ack = False
        obj.crc = case["crc"]
        if static is None:
            dstyle = case.get("dyn_style", "attr")
            used = sorted({0, 1, case["pipe"]})
            if dstyle == "attr":
                obj.dynamic_payloads = True
            elif dstyle == "off_then_pipes":
                # switched off for all pipes first, then on again pipe by pipe through the function form
                obj.dynamic_payloads = False
                for p in used:
                    obj.set_dynamic_payloads(True, p)
            elif dstyle == "pipes_off_then_on":
                # every pipe switched off one by one (the last one takes the feature with it), then the used ones on
                for p in range(6):
                    obj.set_dynamic_payloads(False, p)
                for p in reversed(used):
                    obj.set_dynamic_payloads(True, p)
            elif dstyle == "mask":
                obj.dynamic_payloads = False
                obj.dynamic_payloads = sum(1 << p for p in used)
            else:  # "list"
                obj.dynamic_payloads = False
                obj.dynamic_payloads = [p in used for p in range(6)]
        else:
            obj.dynamic_payloads = False
            style = case.get("pl_style", "all")
            if style == "all":
                obj.payload_length = static
            else:
                # per-pipe static lengths that differ; the pipe the traffic uses (and pipe 0, whose
                # length the transmitting side pads to, and pipe 1 for ping-pong replies) gets the common length
                other = case.get("pl_other", [7, 13, 21, 32, 1, 9])
                common = {0, 1, case["pipe"]}
                if side == "rx" and not case.get("pingpong") and case["pipe"] != 0:
                    common = {case["pipe"]}  # a pure receiver: pipe 0's length is its own business
                lens = [static if i in common else (other[i] if other[i] != static else other[i] % 32 + 1)
                        for i in range(6)]
                if style == "list":
                    obj.payload_length = lens
                else:
                    order = list(range(6)) if style == "asc" else list(range(5, -1, -1))
                    for i in order:
                        obj.set_payload_length(lens[i], i)
    else:
        if static is None:
            obj.dynamic_payloads = True
        else:
            obj.dynamic_payloads = False
            obj.payload_length = static
    if case.get("ard"):
        obj.ard = case["ard"]
    if case.get("arc") is not None:
        obj.arc = case["arc"]


def expected_bytes(buf, static):
    if static is None:
        return bytes(buf)
    b = bytes(buf)
    if len(b) < static:
        return b + b"\0" * (static - len(b))
    return b[:static]


def make_payload(rng, n, ident):
    b = bytearray(rng.getrandbits(8) for _ in range(n))
    if n >= 2:
        b[0] = ident & 0xFF
        b[1] = (ident >> 8) & 0xFF
    elif n == 1:
        b[0] = ident & 0xFF
    return b


class Pair:
    def __init__(self, ctx, case, threaded=False):
        self.case = case
        prof = W.Profile(**case["profile"]) if case.get("profile") else W.Profile(jitter=0.0)
        self.rig = Rig(seed=case.get("seed", 0), profile=prof, bind=not threaded)
        self.rt = self.rig.radio("dut", plus=case.get("plus", True))
        self.rr = self.rig.radio("peer")
        self.threaded = threaded
        if threaded:
            self.n_tx = self.rig.world.add_node("dut", prof)
            pprof = W.Profile(spi_overhead=8000, spi_byte=400, pin=1000, timecall=500,
                              jitter=0.2, poll=60000)
            self.n_rx = self.rig.world.add_node("peer", pprof)
            self.rig.world.bind(self.n_tx)  # constructors run on the controller thread
        tx_kind = case.get("tx_kind", "full")
        rx_kind = case.get("rx_kind", "full")
        tfl = "bus" if tx_kind == "lite" else case.get("flavour", "pin")
        rfl = "bus" if rx_kind == "lite" else "pin"
        self.tx = self.rig.driver(self.rt, cls=cls_of(tx_kind), flavour=tfl)
        self.rx = self.rig.driver(self.rr, cls=cls_of(rx_kind), flavour=rfl)
        configure(self.tx, tx_kind, case)
        configure(self.rx, rx_kind, case, "rx")
        for i in range(6):
            self.rx.open_rx_pipe(i, PIPE_ADDRS[i])
        if case.get("pingpong"):
            # the receiver also has a TX address of its own (it answers later): set before listening
            self.rx.open_tx_pipe(PP_ADDR)
            self.tx.open_rx_pipe(1, PP_ADDR)
        self.rx.listen = True
        self.tx.open_tx_pipe(full_addr(case["pipe"])[: case["aw"]] if case.get("short_addr")
                             else full_addr(case["pipe"]))
        self.tx.listen = False
        if case.get("aw_first"):
            self.tx.address_length = case["aw"]
            self.rx.address_length = case["aw"]
        # a history of legal calls between set-up and traffic that leaves the link configured
        # compatibly: role round trips, `with` re-entry (then the role is asserted again as the
        # examples do), the sender also listening on a pipe-0 address of its own
        for op in case.get("pre", ()):
            if op == "ack_on":
                # ACK payloads enabled on both ends after the set-up (documented side effect:
                # dynamic payloads are switched on - for every pipe in the lite driver, for
                # pipe 0 in the full one)
                self.tx.ack = True
                self.rx.listen = False
                self.rx.ack = True
                self.rx.listen = True
            elif op == "ack_load":
                self.rx.listen = False
                self.rx.ack = True
                self.rx.listen = True
                self.tx.load_ack(b"x", 0)  # implicit `ack = True`; the payload itself is flushed
                self.tx.flush_tx()
            elif op == "tx_rx0" and tx_kind == "full":
                self.tx.open_rx_pipe(0, ALT_RX0)
            elif op == "tx_toggle":
                self.tx.listen = True
                self.rig.node.idle(200000) if not threaded else None
                self.tx.listen = False
            elif op == "tx_reenter" and hasattr(self.tx, "__enter__"):
                self.tx.__enter__()
                self.tx.listen = False
            elif op == "rx_toggle":
                self.rx.listen = False
                self.rx.listen = True
            elif op == "rx_reenter" and hasattr(self.rx, "__enter__"):
                self.rx.__enter__()
                self.rx.listen = True
            elif op == "tx_reopen_short" and tx_kind == "full" and not case.get("aw_first"):
                # the same TX address again, given with only the bytes the width uses
                self.tx.open_tx_pipe(full_addr(case["pipe"])[: case["aw"]])
        self.rig.node.idle(300000) if not threaded else None

    def close(self):
        self.rig.close()
