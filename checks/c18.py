"""C18 - every advertisement is a well-formed BLE packet for the channel it is sent on.
DESIGN §4/C18."""
import random

from refmodels import ble_ref
from vsim import world as W
from vsim.rig import Rig, repo

PROP = "C18"
RULE = ("a FakeBLE object on a simulated radio; a case = (MAC form, name None/str/bytes of length "
        "0..20, show_pa_level x PA level, a history of up to 8 steps out of {hop_channel(), "
        "channel = valid|invalid value, leave/re-enter the `with` block with an RF24 object using "
        "the radio in between}, then chunk sets around the capacity boundary in single/list/tuple "
        "form). Every packet that goes on air is decoded by the independent bit-serial phone model "
        "tuned to the BLE channel of the RF_CH the radio was on, and compared field by field; "
        "len_available() and the ValueError boundary are compared with the decoded packet. "
        "Non-trivial: a packet was decoded or a rejection observed; distinct = (name length/type, "
        "pa flag/level, chunk lengths, form, channel history).")
RULE += (" Later rounds added: the MAC as assigned (ints with zero upper bytes; either byte order), repeated advertisements with the same chunk objects and the TX power changed in between, another object setting its own static payload length in its block, the BLE object's attributes read between blocks, the public CRC helper used with another polynomial first, a captured advertisement (of the tuned or another BLE channel) examined with available() before advertising; earlier shorter advertisements of the same object on the same channel (a packet that grows), the radio re-tuned by the other object outside any with block followed by an explicit channel assignment (with and without print_details() in between).")
REQUIRED = {"decoded_by_phone": 800, "fields_match": 800, "len_available": 800,
            "valueerror_boundary": 300, "channel_histories": 300}
BUDGET = {"quick": 480, "thorough": 900}


def gen_cases(ctx):
    rng = ctx.sub_rng("c18")
    rng2 = ctx.sub_rng("c18b")  # later additions draw from their own stream
    rng3 = ctx.sub_rng("c18c")
    n = 6000 if ctx.tier == "quick" else 200000
    for i in range(n):
        name_len = rng.choice([None, None, 0, 1, 3, 8, 14, 15, 16, 17, 18, 19, 20, rng.randrange(0, 21)])
        hist = []
        for _ in range(rng.randrange(0, 9)):
            r = rng.random()
            if r < 0.4:
                hist.append(["hop"])
            elif r < 0.7:
                hist.append(["channel", rng.choice([2, 26, 80, 2, 26, 80, 76, 0, 125, 37, -1])])
            else:
                hist.append(["with_other", rng.choice([2, 26, 80, 40, 76])])
        for h in hist:
            if h[0] == "with_other":
                # what else the other object does with the radio in its block (a static payload
                # length of its own), and whether the application looks at the BLE object's
                # attributes before it re-enters that object's block
                h += [rng2.choice([None, 8, 20, 32]), rng2.random() < 0.5]
        if rng2.random() < 0.2:
            # the beacon also listens: a valid advertisement captured on another BLE channel (before
            # the last hop) or on the tuned one is still in its RX FIFO and is looked at now -
            # often as the very last thing before it advertises
            ev = ["rx_captured", rng2.choice([0, 1, 2]), rng2.randrange(1 << 16)]
            if rng2.random() < 0.6:
                hist.append(ev)
            else:
                hist.insert(rng2.randrange(len(hist) + 1), ev)
        if rng2.random() < 0.15:
            # the module's public CRC helper used for something else first (another polynomial)
            hist.insert(rng2.randrange(len(hist) + 1), ["crc_other", rng2.choice([0x5B06, 0x1021, 0x864CFB]),
                                                         rng2.randrange(1 << 16)])
        if rng3.random() < 0.3:
            # an earlier, shorter advertisement of the same object (no data chunk) on whatever
            # channel it is tuned to at that point of the history - a beacon whose packet grows
            for _ in range(rng3.choice([1, 1, 2, 3])):
                hist.insert(rng3.randrange(len(hist) + 1), ["adv_small"])
        if rng3.random() < 0.2:
            # the other object on the chip re-tunes the radio WITHOUT the with discipline (optionally
            # print_details() re-reads the registers), then the beacon is explicitly assigned a BLE
            # frequency: after that assignment radio and whitening agree again, whatever was recorded
            for _ in range(rng3.choice([1, 1, 2])):
                hist.insert(rng3.randrange(len(hist) + 1),
                            ["retune", rng3.choice([2, 26, 80]), rng3.random() < 0.5, rng3.choice([2, 26, 80])])
        yield {"name_len": name_len, "name_type": rng.choice(["str", "bytes", "bytearray"]),
               "pa": rng.random() < 0.4, "pa_level": rng.choice([-18, -12, -6, 0]),
               "pa_first": rng.random() < 0.5,
               "mac": rng.choice(["none", "int", "bytes6", "short"]), "hist": hist,
               "form": rng.choice(["single", "single", "list", "tuple", "empty"]),
               "rounds": rng.choice([1, 1, 2, 3]),
               "delta": rng.choice([-2, -1, 0, 0, 1, 2, -5, 3]), "nchunks": rng.choice([1, 1, 2, 3]),
               "data_type": rng.choice([0xFF, 0x16, 0x09, 0x2A]), "seed": rng.getrandbits(30)}


def run_case(ctx, case):
    m = repo()
    F = m["fake_ble"]
    rng = random.Random(case["seed"])
    # os.urandom in fake_ble -> seeded source
    F.urandom = lambda n: bytes(rng.getrandbits(8) for _ in range(n))
    rig = Rig(seed=case["seed"])
    try:
        radio = rig.radio("ble")
        ble = rig.driver(radio, cls=F.FakeBLE)
        other = rig.driver(radio)  # an RF24 object sharing the radio (used in `with` blocks)
        other.__exit__(None, None, None)
        ble.__enter__()
        node = rig.node
        # ---- configuration
        mac_kind = case["mac"]
        assigned = None  # the bytes the assigned value stands for (a prefix for short values)
        if mac_kind == "int":
            # also integers whose upper byte(s) are zero
            v = rng.choice([rng.getrandbits(48), rng.getrandbits(40), rng.getrandbits(33), rng.getrandbits(16),
                            rng.getrandbits(48) & 0x00FFFF00FFFF, 1, 0])
            ble.mac = v
            assigned = v.to_bytes(6, "little")
            assigned_alt = v.to_bytes(6, "big")  # the byte order of an int is not documented
        elif mac_kind == "bytes6":
            assigned = bytes(rng.choice([0, rng.getrandbits(8)]) if rng.random() < 0.3 else rng.getrandbits(8)
                             for _ in range(6))
            ble.mac = assigned if rng.random() < 0.5 else bytearray(assigned)
        elif mac_kind == "short":
            assigned = bytes(rng.getrandbits(8) for _ in range(3))
            ble.mac = assigned
        else:
            ble.mac = None
        lazy_mac = mac_kind == "short" and case["seed"] % 2 == 0
        # (a short address is completed with random bytes; when nothing has read ble.mac yet the
        # completed value is learnt from the first packet and compared with the attribute afterwards)
        mac = bytes(ble.mac) if not lazy_mac else None
        if mac is not None and len(mac) != 6:
            ctx.violation("mac-length", "mac attribute has %d bytes after assigning a %s value"
                          % (len(mac), mac_kind), case)
            return
        if mac is not None and assigned is not None and mac[:len(assigned)] != assigned and not (mac_kind == "int" and mac == assigned_alt):
            ctx.violation("mac-not-as-assigned", "mac assigned as %s %s reads back as %s"
                          % (mac_kind, assigned.hex(), mac.hex()), case)
            return
        name = None
        rejected_cfg = False

        def set_name():
            nonlocal name
            if case["name_len"] is None:
                ble.name = None
                return
            raw = bytes(rng.choice(b"abcdefghijklmnopqrstuvwxyz0123456789") for _ in range(case["name_len"]))
            if case["name_type"] == "str" and case["seed"] % 3 == 0 and case["name_len"] >= 2:
                # a text name with multi-byte UTF-8 characters: what counts is its length in BYTES
                txt = ""
                while len((txt + "\u00e9").encode()) <= case["name_len"]:
                    txt += rng.choice(["\u00e9", "\u6e29", "a", "\u00fc"])
                    if len(txt.encode()) > case["name_len"]:
                        txt = txt[:-1]
                        break
                txt += "x" * (case["name_len"] - len(txt.encode()))
                raw = txt.encode()
            val = raw.decode() if case["name_type"] == "str" else (raw if case["name_type"] == "bytes" else bytearray(raw))
            ble.name = val
            name = raw

        def set_pa():
            ble.pa_level = case["pa_level"]
            ble.show_pa_level = case["pa"]
        try:
            if case["pa_first"]:
                set_pa()
                set_name()
            else:
                set_name()
                set_pa()
        except ValueError:
            rejected_cfg = True
        name_now = ble.name
        pa_now = ble.show_pa_level
        # ---- channel history
        for h in case["hist"]:
            if h[0] == "hop":
                ble.hop_channel()
            elif h[0] == "channel":
                try:
                    ble.channel = h[1]
                except ValueError:
                    pass
            elif h[0] == "rx_captured":
                cur = {2: 37, 26: 38, 80: 39}.get(radio.r[5])
                if cur is not None:
                    chidx = 37 + (cur - 37 + h[1]) % 3
                    mac2 = bytes((h[2] >> (i % 2 * 8)) & 0xFF ^ (i * 29) for i in range(6))
                    radio.inject_rx(0, ble_ref.encode(mac2, [(1, b"\x05"), ble_ref.battery_ad(h[2] & 0xFF)], chidx))
                    try:
                        if ble.available():
                            ble.read()
                    except Exception as e:  # noqa: BLE001
                        ctx.violation("available-raises/%s" % type(e).__name__, repr(e), case)
                        return
                    radio.rx_fifo.clear()
                    ctx.count("captured_frames_examined_%s" % ("on_the_tuned_channel" if h[1] == 0 else "from_another_channel"))
            elif h[0] == "adv_small":
                air_w = len(rig.air.log)
                node.deadline = node.t + 200 * W.MS
                try:
                    ble.advertise()
                except ValueError:
                    pass
                finally:
                    node.deadline = None
                node.idle(1 * W.MS)
                for pw in [x for x in rig.air.log[air_w:] if x.kind == "data"]:
                    ctx.clause("earlier_shorter_advertisement")
                    dw = ble_ref.phone_decode(pw.addr, pw.payload, pw.ch)
                    if not dw["ok"]:
                        alt = [c for c in (2, 26, 80) if c != pw.ch and ble_ref.phone_decode(pw.addr, pw.payload, c)["ok"]]
                        ctx.violation("whitened-for-other-channel" if alt else "not-decodable",
                                      "an advertisement without data chunks sent on RF_CH %d is not a valid BLE packet "
                                      "for that channel: %s" % (pw.ch, dw.get("why")), case)
                        return
            elif h[0] == "retune":
                import contextlib
                import io
                other.channel = h[1]
                if h[2]:
                    with contextlib.redirect_stdout(io.StringIO()):
                        ble.print_details()
                ble.channel = h[3]
                ctx.clause("assignment_after_foreign_retune")
            elif h[0] == "crc_other":
                import random as _r
                buf = bytes(_r.Random(h[2]).randrange(256) for _ in range(40))
                for n in (0, 1, 7, 23, 40):
                    repo()["fake_ble"].crc24_ble(buf[:n], h[1], 0xABCDEF)
                repo()["fake_ble"].crc24_ble(bytes(range(256)), h[1])
                ctx.count("crc_helper_used_with_another_polynomial")
            else:
                ble.__exit__(None, None, None)
                with other as o:
                    o.channel = h[1]
                    if len(h) > 2 and h[2]:
                        o.payload_length = h[2]
                if len(h) > 3 and h[3]:
                    (ble.payload_length, ble.len_available(), ble.name, ble.channel, ble.pa_level)
                    ctx.count("ble_attributes_read_between_blocks")
                ble.__enter__()
                # leaving the block forgets name / show_pa_level (documented in __exit__): re-apply
                name_now = ble.name
                pa_now = ble.show_pa_level
        if case["hist"]:
            ctx.clause("channel_histories")
        name_b = None if name_now is None else bytes(name_now)
        overhead = (2 + len(name_b) if name_b is not None else 0) + (3 if pa_now else 0)
        free = 18 - overhead
        ctx.clause("len_available")
        if ble.len_available() != free:
            ctx.violation("len_available", "len_available() = %d, %d bytes are free (name %r, pa %s)"
                          % (ble.len_available(), free, name_b, pa_now), case)
            return
        # ---- chunks around the boundary
        form = case["form"]
        total = max(0, free + case["delta"])
        if form == "empty":
            arg, ads, total = b"", [], 0
        elif form == "single":
            dlen = max(1, total - 2)
            data = bytes(rng.getrandbits(8) for _ in range(dlen))
            arg, ads, total = data, [(case["data_type"], data)], dlen + 2
        else:
            k = case["nchunks"]
            ads = []
            chunks = []
            remaining = max(2 * k, total)
            for j in range(k):
                ln = (remaining - 2 * (k - j - 1)) if j == k - 1 else rng.randrange(2, max(3, remaining - 2 * (k - j - 1) + 1))
                ln = max(2, ln)
                remaining -= ln
                data = bytes(rng.getrandbits(8) for _ in range(ln - 2))
                t = rng.choice([0x16, 0xFF, 0x09])
                ads.append((t, data))
                chunks.append(F.chunk(data, t))
            total = sum(len(c) for c in chunks)
            arg = chunks if form == "list" else tuple(chunks)
        pa_level_now = case["pa_level"]
        for rnd in range(case.get("rounds", 1)):
            if rnd:
                # the same object advertises again - the same chunk objects - after its TX power
                # was changed (every second time), as a beacon in a running session does
                ctx.clause("repeated_advertisement")
                if pa_now and rnd % 2:
                    pa_level_now = [x for x in (-18, -12, -6, 0) if x != pa_level_now][(rnd + case["seed"]) % 3]
                    ble.pa_level = pa_level_now
            air0 = len(rig.air.log)
            rf_ch = radio.r[5]
            node.deadline = node.t + 200 * W.MS
            exc = None
            try:
                ble.advertise(arg, case["data_type"]) if form in ("single", "empty") else ble.advertise(arg)
            except ValueError as e:
                exc = e
            except W.VirtualDeadline:
                ctx.violation("advertise-no-return", "advertise() did not return", case)
                return
            finally:
                node.deadline = None
            node.idle(1 * W.MS)
            ctx.clause("valueerror_boundary")
            fits = total <= free
            if fits and exc is not None:
                ctx.violation("valueerror/spurious", "advertise of %d chunk bytes with %d free raised %r"
                              % (total, free, exc), case)
                return
            if not fits:
                if exc is None:
                    ctx.violation("valueerror/missing", "advertise of %d chunk bytes with only %d free "
                                  "did not raise ValueError" % (total, free), case)
                    return
                if len(rig.air.log) != air0:
                    ctx.violation("valueerror/packet-sent-anyway", "packet on air despite ValueError", case)
                    return
                ctx.nontrivial(("reject", case["name_len"], pa_now, total - free, form))
                return
            pk = [p for p in rig.air.log[air0:] if p.kind == "data"]
            if len(pk) != 1:
                ctx.violation("packets-per-advertise", "%d packets on air for one advertise()" % len(pk), case)
                return
            p = pk[0]
            src = p.src
            ctx.clause("decoded_by_phone")
            why = None
            if p.aw != 4 or p.crclen != 0 or p.rate != 1 or p.dpl or len(p.payload) != 32:
                why = "radio settings: aw %d crc %d rate %s dpl %s len %d" % (p.aw, p.crclen, p.rate, p.dpl, len(p.payload))
            elif src.r[1] != 0 or src.r[4] & 0x0F:
                why = "EN_AA=%02X SETUP_RETR=%02X (not the PCF-less legacy format)" % (src.r[1], src.r[4])
            d = ble_ref.phone_decode(p.addr, p.payload, p.ch) if why is None else {"ok": False, "why": why}
            hops = tuple(h[0] + (str(h[1]) if len(h) > 1 else "") for h in case["hist"])
            if not d["ok"]:
                # which channel would it decode on?  (diagnosis only)
                alt = [c for c in (2, 26, 80) if c != p.ch and ble_ref.phone_decode(p.addr, p.payload, c)["ok"]]
                key = "whitened-for-other-channel" if alt else "not-decodable"
                ctx.violation(key, "packet sent on RF_CH %d is not a valid BLE packet for channel %s: %s%s; "
                              "channel history %r" % (p.ch, ble_ref.CHANNEL_OF_RF_CH.get(p.ch), d.get("why"),
                                                      (" (it decodes on RF_CH %d)" % alt[0]) if alt else "", hops), case)
                return
            ctx.clause("fields_match")
            exp_ad = [(0x01, b"\x05")]
            if pa_now:
                exp_ad.append((0x0A, bytes([pa_level_now & 0xFF])))
            if name_b is not None:
                exp_ad.append((0x08, name_b))
            exp_ad += ads
            bad = None
            if d["header"] != 0x42:
                bad = "header %02X" % d["header"]
            elif d["length"] != 6 + sum(2 + len(x[1]) for x in exp_ad):
                bad = "length byte %d, expected %d" % (d["length"], 6 + sum(2 + len(x[1]) for x in exp_ad))
            elif mac is None and (d["mac"][:len(assigned)] != assigned or bytes(ble.mac) != d["mac"]):
                bad = "MAC %s on air, assigned prefix %s, attribute now %s" % (d["mac"].hex(), assigned.hex(), bytes(ble.mac).hex())
            elif mac is not None and d["mac"] != mac:
                bad = "MAC %s, configured %s" % (d["mac"].hex(), mac.hex())
            elif d["ad"] != exp_ad:
                bad = "AD structures %r, expected %r" % (d["ad"], exp_ad)
            if bad:
                ctx.violation("pdu-fields/" + bad.split()[0], "%s (name %r pa %s form %s)" % (bad, name_b, pa_now, form), case)
                return
            if ble.len_available(b"x" * total) != free - total:
                ctx.violation("len_available/hypothetical", "len_available(%d bytes) = %d, expected %d"
                              % (total, ble.len_available(b"x" * total), free - total), case)
                return
            if radio.san:
                ctx.violation("sanitizer:" + radio.san[0][0], radio.san[0][1], case)
                return
            ctx.nontrivial((case["name_len"], case["name_type"], pa_now, pa_level_now if pa_now else None,
                            tuple(len(x[1]) for x in ads), form, hops, p.ch))
            ctx.sample({"name": name_b.decode() if name_b else None, "pa": pa_now, "form": form,
                        "chunk_lengths": [len(x[1]) for x in ads], "history": case["hist"], "rf_ch": p.ch,
                        "decoded_length": d["length"], "crc_ok": d["crc_ok"]})
    finally:
        rig.close()
