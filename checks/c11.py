"""C11 - header and fragment wire formats are stable and TMRh20-compatible. DESIGN §4/C11."""
from checks import netcommon as N
from refmodels import net_ref
from vsim import world as W
from vsim.radio import Phantom
from vsim.rig import Rig, repo

PROP = "C11"
RULE = ("(a) header/frame codec: every 12-bit origin and destination, ids incl. 0, 0x7FFF, 0xFFFE, "
        "0xFFFF and the wrap of the process-wide counter, all 256 types and reserved values, "
        "one-character string types - pack() compared byte for byte with a hand-written "
        "little-endian encoder, unpack(pack()) compared field by field, short buffers refused; "
        "(b) one write()/send()/multicast() per message length 0..144 x message types on a single "
        "node (RF24Network, RF24Mesh) against a promiscuous-ACK stub: the on-air frames are "
        "compared with the reference TMRh20-numbering fragmenter and fed to a TMRh20-style "
        "reference reassembler; (c) the caller's header type after the call, including routed "
        "ACK-typed sends on a 3-node chain where the NETWORK_ACK comes back into the frame "
        "buffer; (d) sessions of 2..4 messages from one node (header objects re-used, long after "
        "short and short after long, send/write/multicast mixed) with an outage of 5..120 ms that "
        "begins at the first attempt of one fragment: the distinct frames on air must be a prefix "
        "of the reference frames and a True result requires that the receiver accepted all of "
        "them. Non-trivial: bytes were compared; distinct = distinct (part, length, type, "
        "field class).")
RULE += (" Later rounds added: traffic_direct writes, one-character string types, re-used and re-addressed headers, loop-back frames, kept bytearray messages re-sent with frames received in between, outages at a chosen fragment, kept buffers edited in place before being sent again, frames forwarded to a child after a completed or an abandoned fragment train, caller-set reserved bytes, the radio's read-only accessors used between messages, message types 128..255 on air, the node re-addressed between two messages (a header object kept from before used again), a queue object of the application's own installed.")
REQUIRED = {"pack_bytes": 10000, "unpack_roundtrip": 10000, "short_buffer_refused": 50,
            "onair_frames_vs_reference": 200, "tmrh_reassembly": 200, "caller_header_type": 200,
            "caller_header_type_routed": 10, "session_frames_vs_reference": 1000,
            "result_vs_accepted_frames": 800, "forwarded_frame_unchanged": 200}
BUDGET = {"quick": 480, "thorough": 900}


def gen_cases(ctx):
    # (a) codec blocks
    for blk in range(16):
        yield {"part": "codec", "block": blk}
    # (b) on-air frames
    types = [0, 1, 64, 65, 127] if ctx.tier == "quick" else list(range(0, 128))
    for cls in ("net", "mesh"):
        for n in range(0, 145):
            for t in (types if n % 12 == 0 or n in (23, 24, 25, 47, 48, 49, 143, 144) else types[1:3]):
                for how in ("send", "write", "multicast"):
                    if cls == "mesh" and how == "send":
                        continue
                    if how == "multicast" and (n + t) % 3:
                        continue
                    yield {"part": "onair", "cls": cls, "len": n, "type": t, "how": how,
                           "to": [0, 0o11, 0][n % 3]}
    # (b') the upper half of the type byte (the values the network layer itself uses, fragment
    # types included): whatever the type, a long message leaves as first/more/last fragments with
    # the type in the last one's reserved byte, a short one as one frame
    for n in ((30, 49, 100, 10) if ctx.tier == "quick" else (0, 10, 24, 25, 30, 48, 49, 100, 144)):
        for t in range(128, 256):
            if (n <= 24 and t in (148, 149, 150)) or t == 193:
                continue  # (one frame typed 148..150 IS a fragment on the wire; 193 is filtered out as NETWORK_ACK traffic)
            yield {"part": "onair", "cls": "net", "len": n, "type": t, "how": ["send", "write"][(n + t) % 2], "to": 0}
    yield from gen_sessions(ctx)
    # (c) routed sends on a chain
    for i in range(12 if ctx.tier == "quick" else 400):
        yield {"part": "routed", "type": [65, 66, 127, 1, 64, 100][i % 6], "len": [0, 5, 24, 30, 50][i % 5],
               "seed": i}


def gen_sessions(ctx):
    """(d) several messages in a row from one node: header objects re-used, long after short and
    short after long, and an outage of 5..120 ms that begins with the first attempt of one
    fragment (so that it is rescued by the first, second or third software retry, or lost)"""
    rng = ctx.sub_rng("c11s")
    rng2 = ctx.sub_rng("c11s2")  # later additions draw from their own stream
    rng3 = ctx.sub_rng("c11s3")
    for i in range(900 if ctx.tier == "quick" else 40000):
        msgs = []
        for k in range(rng.randrange(2, 5)):
            how = rng.choice(["send", "send", "write", "multicast"])
            ln = rng.choice([0, 1, 12, 23, 24, 25, 30, 47, 48, 49, 60, 72, 100, 144, rng.randrange(0, 145)])
            t = rng.choice([0, 1, 2, 3, 64, 65, 84, 127, rng.randrange(0, 128)])
            to = rng.choice([0, 0o11, 0o21])
            if rng.random() < 0.12:
                how = "loopback"  # to the node's own address: queued for its own application
            elif rng.random() < 0.12:
                how = "direct"  # write(frame, traffic_direct=neighbour): handed to a chosen first hop
            reuse = (bool(msgs) and how not in ("multicast", "loopback", "direct")
                     and msgs[-1]["how"] not in ("multicast", "loopback", "direct") and rng.random() < 0.45)
            if reuse and rng.random() < 0.5:
                # same header object, same fields; otherwise the application re-addresses /
                # re-types the object it kept (the fields are public attributes)
                t, to = msgs[-1]["type"], msgs[-1]["to"]
            mm = {"how": how, "len": ln, "type": t, "to": to, "reuse": reuse,
                  # the message is a bytearray the application keeps; a frame arrives afterwards; the
                  # next message may be the very same buffer object sent again
                  "bytearray": rng.random() < 0.5, "incoming_after": rng.random() < 0.4}
            if msgs and msgs[-1].get("bytearray") and how in ("send", "write") and msgs[-1]["how"] in ("send", "write") \
                    and rng.random() < 0.35:
                mm.update(rebuf=True, bytearray=True, len=msgs[-1]["len"])
            if mm.get("rebuf") and rng2.random() < 0.6:
                mm["edit"] = True  # the application writes new content into the buffer it kept
                msgs[-1]["incoming_after"] = msgs[-1]["incoming_after"] and rng2.random() < 0.3
            if how in ("send", "write") and rng2.random() < 0.3:
                mm["rx_waiting"] = True  # a frame for this node sits unread in its radio when it sends
            if how in ("send", "write") and rng2.random() < 0.35:
                # a frame for the child 0o11 arrives afterwards and is forwarded (length, type)
                mm["forward_after"] = [rng2.choice([0, 1, 10, 24]), rng2.choice([5, 64, 33])]
            r3 = rng3.random()
            if msgs and r3 < 0.25:
                # the node is given another address before this message; a header object kept from the
                # previous message (sent under the old address) is often the one used again
                mm["readdress"] = True
                if how in ("send", "write") and msgs[-1]["how"] in ("send", "write") and rng3.random() < 0.6:
                    mm["reuse"] = True
            elif r3 < 0.4:
                # the application installs a queue object of its own (the attribute is public)
                mm["own_queue"] = rng3.choice(["plain", "frag"])
            msgs.append(mm)
        outage = None
        uni = [j for j, mm in enumerate(msgs) if mm["how"] in ("send", "write")]
        if uni and rng.random() < 0.5:
            j = rng.choice(uni)
            nfr = max(1, -(-msgs[j]["len"] // 24))
            outage = {"msg": j, "frag": rng.randrange(nfr), "ms": rng.choice([rng.randrange(5, 120), rng.randrange(50, 90)])}
        yield {"part": "session", "msgs": msgs, "outage": outage, "seed": rng.getrandbits(20)}


def run_case(ctx, case):
    if case["part"] == "codec":
        run_codec(ctx, case)
    elif case["part"] == "onair":
        run_onair(ctx, case)
    elif case["part"] == "session":
        run_session(ctx, case)
    else:
        run_routed(ctx, case)


def _collapse(frames):
    out = []
    for f in frames:
        if not out or out[-1] != f:
            out.append(f)
    return out


def run_session(ctx, case):
    m = repo()
    rig = Rig(seed=case["seed"])
    try:
        ph = rig.air.promisc = Phantom()
        radio = rig.radio("n")
        node = rig.node
        me = 0o1
        obj = rig.driver(radio, cls=m["rf24_network"].RF24Network, node_address=me)
        Hdr, Frame = m["structs"].RF24NetworkHeader, m["structs"].RF24NetworkFrame
        out = case["outage"]
        st = {"cur": None, "seen": [], "until": None}

        def fault(pkt, rx):
            if out is None or st["cur"] != out["msg"] or pkt.kind != "data":
                return False
            pl = bytes(pkt.payload)
            if pl not in st["seen"]:
                st["seen"].append(pl)
                if len(st["seen"]) - 1 == out["frag"] and st["until"] is None:
                    st["until"] = pkt.t0 + out["ms"] * W.MS
            return st["until"] is not None and pkt.t0 < st["until"]
        rig.air.fault = fault
        prev = None
        kept = None
        for j, mm in enumerate(case["msgs"]):
            n, t, to, how = mm["len"], mm["type"], mm["to"], mm["how"]
            msg = bytes((n * 3 + i * 7 + t + j) & 0xFF for i in range(n))
            if mm.get("rebuf") and kept is not None:
                msg_obj, msg = kept  # the same object again; its content is what the application put there
                if mm.get("edit"):
                    msg = bytes(((b ^ 0x5A) + j + i) & 0xFF for i, b in enumerate(msg))
                    msg_obj[:] = msg
            else:
                msg_obj = bytearray(msg) if mm.get("bytearray") else msg
            if (case["seed"] >> (j + 9)) & 1:
                # the application looks at the radio's settings through the node's read-only
                # accessors between two messages
                pp = (case["seed"] >> 5) % 6
                (obj.get_dynamic_payloads(), obj.get_dynamic_payloads(pp), obj.channel, obj.pa_level, obj.data_rate,
                 obj.crc, obj.get_auto_retries(), obj.last_tx_arc, obj.address(pp), obj.listen, obj.power,
                 obj.is_lna_enabled)
                ctx.count("sessions_reading_radio_settings_between_messages")
            if mm.get("readdress"):
                me = 0o2 if me == 0o1 else 0o1
                obj.node_address = me
                ctx.clause("sent_after_readdressing")
            # destinations are the node's direct neighbours (the stub acknowledges packets, it does
            # not answer with NETWORK_ACK frames): parent 0 and the children 0o1x / 0o2x of its address
            to = {0: 0, 0o11: 0o10 + me, 0o21: 0o20 + me}.get(to, to)
            child1 = 0o10 + me
            if mm.get("own_queue"):
                obj.queue = (m["structs"].FrameQueue() if mm["own_queue"] == "plain" else m["structs"].FrameQueueFrag())
                ctx.clause("sent_with_own_queue_object")
            if mm.get("rx_waiting"):
                waiting = net_ref.pack_header(0, me, 950 + j, 5, 0) + b"waiting-%d" % j
                radio.inject_rx(1, waiting)
            st["cur"], st["seen"] = j, []
            air0, ack0 = len(rig.air.log), len(ph.acked)
            node.deadline = node.t + 4000 * W.MS
            hdr = None
            resv = 0
            try:
                if how == "multicast":
                    ret = obj.multicast(msg, t, 2)
                    to = 0o100
                    fid = obj.frame_buf.header.frame_id
                elif how == "direct":
                    # the first hop is named by the caller (parent 0 or child 0o11); the frame on
                    # air is the same header + message, whatever physical address it goes to
                    hdr = Hdr(to, chr(t) if 32 < t < 127 and j % 2 else t)
                    if j % 3 == 0:
                        hdr.message_type = chr(t) if 32 < t < 127 else t  # a one-character string assigned later
                    fid = hdr.frame_id
                    ret = obj.write(Frame(hdr, msg), [0, child1][(n + j) % 2])
                    t_str = hdr.message_type
                elif how == "loopback":
                    hdr = Hdr(me, t)
                    fid = hdr.frame_id
                    buf = bytearray(msg)
                    while obj.available():
                        obj.read()
                    ret = obj.send(hdr, buf)
                    buf[:] = b"\xEE" * len(buf)  # the caller re-uses its buffer
                    hdr.reserved = 0xEE
                    got = obj.read()
                    ctx.clause("loopback_frame_intact")
                    if (ret is not True or got is None or bytes(got.message) != msg or got.header.from_node != me
                            or got.header.to_node != me or got.header.frame_id != fid or got.header.message_type != t):
                        ctx.violation("loopback-frame", "%d-byte type-%d message sent to the node's own address: send() "
                                      "-> %r, read() -> %s" % (n, t, ret, None if got is None else
                                                             (got.header.to_string(), bytes(got.message).hex()[:40])), case)
                        return
                    if len(rig.air.log) != air0:
                        ctx.violation("loopback-frame", "a message to the node's own address went on air", case)
                        return
                    prev = None
                    continue
                else:
                    hdr = prev if (mm["reuse"] and prev is not None) else Hdr(to, t)
                    hdr.to_node, hdr.message_type = to, t
                    # the reserved byte is the caller's too (a header taken from a received frame
                    # and re-used for the answer holds whatever arrived in it)
                    resv = [0, 0, 0, 1, 7, 0xFF, 5, 0x94][(case["seed"] >> (3 * (j % 6))) % 8]
                    hdr.reserved = resv
                    fid = hdr.frame_id
                    ret = obj.send(hdr, msg_obj) if how == "send" else obj.write(Frame(hdr, msg_obj))
            except W.VirtualDeadline:
                ctx.violation("session/no-return", "message %d of %r did not return" % (j, case["msgs"]), case)
                return
            finally:
                node.deadline = None
            node.idle(3 * W.MS)
            if mm.get("rx_waiting"):
                # ... and is read afterwards, intact
                air_in, ack_in = len(rig.air.log), len(ph.acked)
                obj.update()
                gotw = []
                while obj.available():
                    f = obj.read()
                    gotw.append((f.header.from_node, f.header.frame_id, f.header.message_type, bytes(f.message)))
                ctx.clause("waiting_frame_read_afterwards")
                if gotw != [(0, 950 + j, 5, b"waiting-%d" % j)] or len(rig.air.log) != air_in:
                    ctx.violation("waiting-frame-lost-or-altered", "a frame that waited unread in the radio while message %d "
                                  "(%s, %d bytes, returned %r) was sent is read afterwards as %r" % (j, how, n, ret, gotw), case)
                    return
            if how in ("send", "write"):
                kept = (msg_obj, msg) if isinstance(msg_obj, bytearray) else None
                if mm.get("forward_after"):
                    # a frame for the child arrives: what goes on air is that frame, unchanged, once
                    fl, ft = mm["forward_after"]
                    fwd = net_ref.pack_header(0, child1, 700 + j, ft, 0) + bytes((fl + i * 5 + j) & 0xFF for i in range(fl))
                    air_in, ack_in = len(rig.air.log), len(ph.acked)
                    st["cur"] = None
                    radio.inject_rx(1, fwd)
                    obj.update()
                    node.idle(3 * W.MS)
                    onair = _collapse([bytes(p.payload) for p in rig.air.log[air_in:] if p.kind == "data"])
                    ctx.clause("forwarded_frame_unchanged")
                    if onair != [fwd] or obj.available():
                        ctx.violation("forwarded-frame-altered", "a %d-byte type-%d frame for the child 0o11 arriving "
                                      "after message %d (%s, %d bytes, returned %r%s): on air %r, expected the frame "
                                      "itself (%s); queued for the application: %r"
                                      % (fl, ft, j, how, n, ret, ", outage %r" % out if out and out["msg"] == j else "",
                                         [x.hex() for x in onair], fwd.hex(), bool(obj.available())), case)
                        return
                    ctx.count("forwarded_after_%s" % ("failed" if ret is not True else "ok"))
                    del rig.air.log[air_in:]
                    del ph.acked[ack_in:]
                    st["cur"] = j
                if mm.get("incoming_after"):
                    # traffic arrives for the node between two of its own transmissions
                    air_in = len(rig.air.log)
                    radio.inject_rx(1, net_ref.pack_header(0, me, 900 + j, 5, 0) + b"incoming-%d" % j)
                    obj.update()
                    while obj.available():
                        obj.read()
                    del rig.air.log[air_in:]
                ctx.clause("caller_message_unmodified")
                if isinstance(msg_obj, bytearray) and bytes(msg_obj) != msg:
                    ctx.violation("caller-message-modified", "the bytearray given as message %d (%d bytes) holds %d "
                                  "other bytes after the call%s" % (j, len(msg), len(msg_obj),
                                                                   " and a received frame" if mm.get("incoming_after") else ""), case)
                    return
            prev = hdr if hdr is not None else None
            what = "message %d (%s, %d bytes, type %d%s%s%s%s)" % (
                j, how, n, t, ", node re-addressed to %s before" % oct(me) if mm.get("readdress") else "",
                ", own %s queue object installed" % mm["own_queue"] if mm.get("own_queue") else "",
                ", header object re-used" if mm["reuse"] else "",
                ", outage %r" % out if out and out["msg"] == j else "")
            pk = [p for p in rig.air.log[air0:] if p.kind == "data"]
            distinct = _collapse([bytes(p.payload) for p in pk])
            want = net_ref.fragment(me, to, fid, t, msg, resv if how in ("send", "write") else 0)
            hit = out is not None and out["msg"] == j
            ctx.clause("session_frames_vs_reference")
            if (not hit and distinct != want) or (hit and distinct != want[:len(distinct)]):
                bad = next((i for i, (a, b) in enumerate(zip(distinct, want)) if a != b), min(len(distinct), len(want)))
                ctx.violation("session-frames/%s" % how, "%s after %r: %d distinct frames on air, reference %d; "
                              "first difference at frame %d: %s vs %s"
                              % (what, [(x["how"], x["len"], x["type"]) for x in case["msgs"][:j]], len(distinct),
                                 len(want), bad, distinct[bad].hex() if bad < len(distinct) else None,
                                 want[bad].hex() if bad < len(want) else None), case)
                return
            if how in ("send", "write"):
                accepted = _collapse([bytes(p.payload) for p in ph.acked[ack0:]])
                ctx.clause("result_vs_accepted_frames")
                if ret is True and accepted != want:
                    ctx.violation("session-true-but-incomplete", "%s returned True but the receiver accepted %d of "
                                  "%d frames (last accepted: %s)" % (what, len(accepted), len(want),
                                                                    accepted[-1].hex() if accepted else None), case)
                    return
                if ret is not True and accepted == want and not hit:
                    ctx.violation("session-false-but-complete", "%s returned %r although every frame was "
                                  "acknowledged" % (what, ret), case)
                    return
                if ret is True:
                    ra = net_ref.TmrhReassembler()
                    for f in accepted:
                        ra.feed(f)
                    ctx.clause("tmrh_reassembly")
                    if len(ra.out) != 1 or ra.out[0]["msg"] != msg or ra.out[0]["type"] != t:
                        ctx.violation("tmrh-reassembly", "%s: TMRh20-style receiver yields %r"
                                      % (what, [(o["type"], len(o["msg"])) for o in ra.out]), case)
                        return
            if hdr is not None:
                ctx.clause("caller_header_type")
                if isinstance(hdr.message_type, str):
                    if hdr.message_type != chr(t):
                        ctx.violation("caller-header-type", "%s: caller's one-character type %r is %r afterwards"
                                      % (what, chr(t), hdr.message_type), case)
                        return
                elif hdr.message_type != t:
                    ctx.violation("caller-header-type", "%s: caller's header type is %r afterwards (returned %r)"
                                  % (what, hdr.message_type, ret), case)
                    return
            if hit:
                ctx.count("outage_ret_%r" % (ret is True))
                ctx.distinct("outage_rescue", (len(want), out["frag"], out["ms"] // 10, ret is True))
            ctx.nontrivial(("session", how, n, t, mm["reuse"], hit and out["ms"] // 10))
        if radio.san:
            ctx.violation("sanitizer:" + radio.san[0][0], radio.san[0][1], case)
            return
        ctx.sample({"part": "session", "msgs": case["msgs"], "outage": out})
    finally:
        rig.close()


def run_codec(ctx, case):
    m = repo()
    S = m["structs"]
    Hdr, Frame = S.RF24NetworkHeader, S.RF24NetworkFrame
    blk = case["block"]
    rng = ctx.sub_rng("codec", blk)
    ids = [0, 1, 0x7FFF, 0xFFFE, 0xFFFF, rng.getrandbits(16)]

    def one(frm, to, fid, typ, res, str_type=False):
        h = Hdr(to, chr(typ) if str_type else typ)
        h.from_node = frm
        h.frame_id = fid
        h.reserved = res
        want = net_ref.pack_header(frm, to, fid, typ, res)
        got = h.pack()
        ctx.clause("pack_bytes")
        if bytes(got) != want or len(got) != 8 or len(h) != 8:
            ctx.violation("header-pack", "pack() of from=%o to=%o id=%d type=%d reserved=%d is %s, "
                          "expected %s" % (frm, to, fid, typ, res, bytes(got).hex(), want.hex()), case)
            return False
        h2 = Hdr()
        ok = h2.unpack(got)
        ctx.clause("unpack_roundtrip")
        if (not ok or (h2.from_node, h2.to_node, h2.frame_id, h2.message_type, h2.reserved)
                != (frm, to, fid, typ, res)):
            ctx.violation("header-unpack", "unpack(pack()) gives from=%o to=%o id=%d type=%d res=%d "
                          "for from=%o to=%o id=%d type=%d res=%d"
                          % (h2.from_node, h2.to_node, h2.frame_id, h2.message_type, h2.reserved,
                             frm, to, fid, typ, res), case)
            return False
        return True
    # all 12-bit addresses (split over 16 blocks)
    for a in range(blk * 256, blk * 256 + 256):
        if not one(a, (a * 7 + 3) & 0xFFF, ids[a % 6], a & 0xFF, (a >> 3) & 0xFF):
            return
        if not one((a * 5 + 1) & 0xFFF, a, ids[(a + 1) % 6], 255 - (a & 0xFF), a & 0xFF):
            return
    # all types x reserved (16 types per block x 256 reserved)
    for typ in range(blk * 16, blk * 16 + 16):
        for res in range(256):
            if not one(0o123, 0o45, ids[(typ + res) % 6], typ, res, str_type=(res == 7 and 32 <= typ < 127)):
                return
    # frames
    for n in (0, 1, 7, 24, 25, 144):
        msg = bytes((blk * 13 + i) & 0xFF for i in range(n))
        for mk in (bytes, bytearray):
            h = Hdr(0o21, 9)
            h.from_node = 0o3
            f = Frame(h, mk(msg))
            want = net_ref.pack_header(0o3, 0o21, h.frame_id, 9, 0) + msg
            ctx.clause("pack_bytes")
            if bytes(f.pack()) != want or len(f) != 8 + n:
                ctx.violation("frame-pack", "frame.pack() %s expected %s (len() %d)"
                              % (bytes(f.pack()).hex(), want.hex(), len(f)), case)
                return
            f2 = Frame()
            ctx.clause("unpack_roundtrip")
            if not f2.unpack(want) or bytes(f2.message) != msg or f2.header.to_node != 0o21:
                ctx.violation("frame-unpack", "unpack of %s gives message %r" % (want.hex(), f2.message), case)
                return
    for n in range(8):
        f = Frame()
        before = (f.header.from_node, f.header.to_node, f.header.frame_id, bytes(f.message))
        ctx.clause("short_buffer_refused")
        r1 = f.unpack(bytes(range(n)))
        h = Hdr()
        r2 = h.unpack(bytes(range(n)))
        if r1 or r2 or (f.header.from_node, f.header.to_node, f.header.frame_id, bytes(f.message)) != before:
            ctx.violation("short-buffer-accepted", "a %d-byte buffer was accepted (%r, %r)" % (n, r1, r2), case)
            return
    # id wrap of the process-wide counter
    attr = "_RF24NetworkHeader__next_id"
    if hasattr(Hdr, attr):
        setattr(Hdr, attr, 0xFFFE)
        got = [Hdr().frame_id for _ in range(4)]
        if got != [0xFFFE, 0xFFFF, 0, 1]:
            ctx.violation("frame-id-wrap", "frame ids around the 16-bit wrap: %r" % got, case)
            return
        for fid in got:
            if not one(1, 2, fid, 3, 4):
                return
    ctx.nontrivial(("codec", blk))
    if blk == 0:
        ctx.sample({"part": "codec", "block": 0, "example": {"from": "0o123", "to": "0o45", "id": 0xFFFE,
                                                             "type": 5, "reserved": 9,
                                                             "bytes": net_ref.pack_header(0o123, 0o45, 0xFFFE, 5, 9).hex()}})


def run_onair(ctx, case):
    m = repo()
    rig = Rig(seed=3)
    try:
        rig.air.promisc = Phantom()
        radio = rig.radio("n")
        node = rig.node
        if case["cls"] == "net":
            obj = rig.driver(radio, cls=m["rf24_network"].RF24Network, node_address=0o1)
            me = 0o1
        else:
            obj = rig.driver(radio, cls=m["rf24_mesh"].RF24Mesh, node_id=0)
            me = 0
        n, t = case["len"], case["type"]
        msg = bytes((n * 3 + i * 7 + t) & 0xFF for i in range(n))
        to = case["to"] if case["cls"] == "net" else [0o1, 0o2, 0o5][n % 3]
        air0 = len(rig.air.log)
        node.deadline = node.t + 3000 * W.MS
        hdr = None
        if case["how"] == "send":
            hdr = m["structs"].RF24NetworkHeader(to, t)
            fid = hdr.frame_id
            ret = obj.send(hdr, msg)
        elif case["how"] == "write":
            if case["cls"] == "net":
                hdr = m["structs"].RF24NetworkHeader(to, t)
                fid = hdr.frame_id
                ret = obj.write(m["structs"].RF24NetworkFrame(hdr, msg))
            else:
                ret = obj.write(to, t, msg)
                fid = obj.frame_buf.header.frame_id
        else:
            ret = obj.multicast(msg, t, 2)
            to = 0o100
            fid = obj.frame_buf.header.frame_id
        node.deadline = None
        node.idle(3 * W.MS)
        frames = [bytes(p.payload) for p in rig.air.log[air0:] if p.kind == "data" and p.attempt == 0
                  and not (len(p.payload) >= 7 and p.payload[6] == net_ref.NETWORK_ACK)]
        want = net_ref.fragment(me, to, fid, t, msg)
        ctx.clause("onair_frames_vs_reference")
        if frames != want:
            bad = next((i for i, (a, b) in enumerate(zip(frames, want)) if a != b), min(len(frames), len(want)))
            ctx.violation("onair-frames/%s" % case["how"],
                          "%s of %d bytes type %d by %s: %d frames on air, reference %d; first "
                          "difference at frame %d: %s vs %s"
                          % (case["how"], n, t, case["cls"], len(frames), len(want), bad,
                             frames[bad].hex() if bad < len(frames) else None,
                             want[bad].hex() if bad < len(want) else None), case)
            return
        if any(len(f) > 32 for f in frames):
            ctx.violation("onair-over-32", "frame longer than 32 bytes", case)
            return
        ra = net_ref.TmrhReassembler()
        for f in frames:
            ra.feed(f)
        ctx.clause("tmrh_reassembly")
        if len(ra.out) != 1 or ra.out[0]["msg"] != msg or ra.out[0]["type"] != t or ra.out[0]["from"] != me:
            ctx.violation("tmrh-reassembly", "TMRh20-style receiver yields %r for a %d-byte type-%d "
                          "message" % ([(o["type"], len(o["msg"])) for o in ra.out], n, t), case)
            return
        if hdr is not None:
            ctx.clause("caller_header_type")
            if hdr.message_type != t:
                ctx.violation("caller-header-type", "caller's header type is %r after %s of a "
                              "type-%d %d-byte message" % (hdr.message_type, case["how"], t, n), case)
                return
        if radio.san:
            ctx.violation("sanitizer:" + radio.san[0][0], radio.san[0][1], case)
            return
        ctx.nontrivial(("onair", case["cls"], case["how"], n, t))
        ctx.sample({"part": "onair", "cls": case["cls"], "how": case["how"], "len": n, "type": t,
                    "frames_on_air": len(frames), "ret": repr(ret)})
    finally:
        rig.close()


def run_routed(ctx, case):
    net = N.Net(seed=case["seed"])
    try:
        m = net.m
        prof = {"spi_overhead": 40000, "spi_byte": 800, "pin": 2000, "timecall": 1500,
                "jitter": 0.3, "poll": 0}
        for a in (0, 0o1, 0o11):
            net.add("net", a, profile=prof)
        t, n = case["type"], case["len"]
        msg = bytes((i * 3 + t) & 0xFF for i in range(n))
        box = {}

        def fn(nn):
            h = m["structs"].RF24NetworkHeader(0, t)
            box["hdr"] = h
            r = nn.obj.send(h, msg)
            box["type_at_return"] = h.message_type
            return r
        net.steps.append({"who": 0o11, "name": "send", "fn": fn, "deadline_ms": 3000})
        if not net.run(wall_timeout=60):
            ctx.count("watchdog_inconclusive")
            return
        rec = net.results[0] if net.results else None
        if rec is None or rec["exc"]:
            ctx.violation("routed-send-failed", "routed send raised %r" % (rec and rec["exc"],), case)
            return
        ctx.clause("caller_header_type_routed")
        nack = [p for p in net.air.log if p.kind == "data" and len(p.payload) >= 7
                and p.payload[6] == net_ref.NETWORK_ACK]
        if box["type_at_return"] != t:
            ctx.violation("caller-header-type/routed", "when a routed send of a type-%d message "
                          "(%d bytes, result %r, %d NETWORK_ACK frames on air) returned, the caller's "
                          "header showed type %r" % (t, n, rec["ret"], len(nack), box["type_at_return"]), case)
            return
        ctx.nontrivial(("routed", t, n))
    finally:
        net.close()
