"""C20 - rf24_lite honours the same link-level contract as RF24.  DESIGN §4/C20.
Composite: the C01, C02, C08 and C10 harnesses run with the lite driver adapter, a lite
configuration round-trip against a reduced reference model, and the load_ack() clause."""
from checks import c01, c02, c08, c10
from refmodels import cfg_ref
from vsim.rig import Rig, repo

PROP = "C20"
RULE = ("the C01 (link integrity; lite as transmitter, as receiver, on both ends, and full<->lite "
        "interop), C02 (send/resend truth, lite as PTX), C08 (pipe-0/ACK switching) and C10 "
        "(accessors) workloads restricted to the lite API, always through the real adafruit "
        "SPIDevice on a simulated busio-style bus (incl. its 8 extra clocks); a lite "
        "configuration round trip (all pairs over a 40-call alphabet + random walks) against a "
        "reduced reference model; and load_ack(buf, pipe) for every buffer length 0..33 x pipe "
        "-1..6 x TX-FIFO fill 0..3. Non-trivial/distinct as in the re-used checks, tagged by "
        "sub-workload.")
RULE += (" Later rounds added: whatever the shared C01/C02/C08/C10 harnesses gained, plus ACK payloads enabled after a static configuration.")
REQUIRED = {"bus_bytes": 300, "peer_read": 300, "buffer_unmodified": 300, "return_truth": 300,
            "no_leak": 300, "rx_entry_pipe0": 100, "status_attrs": 1000, "read": 100,
            "load_ack": 500, "lite_cfg_snapshot": 1000, "lite_cfg_getter": 1000}
BUDGET = {"quick": 480, "thorough": 900}

KINDS = [("lite", "full"), ("full", "lite"), ("lite", "lite")]

A5 = "hex:3141424344"
LITE_OPS = [["channel", 0], ["channel", 125], ["channel", 126], ["channel", -1], ["data_rate", 1],
            ["data_rate", 2], ["data_rate", 250], ["pa_level", -18], ["pa_level", -12],
            ["pa_level", -6], ["pa_level", 0], ["pa_level", 7], ["address_length", 3],
            ["address_length", 4], ["address_length", 5], ["address_length", 2],
            ["ard", 250], ["ard", 999], ["ard", 5000], ["ard", 0], ["arc", 0], ["arc", 7],
            ["arc", 16], ["arc", -1], ["dynamic_payloads", True], ["dynamic_payloads", False],
            ["payload_length", 8], ["payload_length", 0], ["payload_length", 33],
            ["payload_length", 32], ["ack", True], ["ack", False], ["power", True],
            ["power", False], ["listen", True], ["listen", False],
            ["interrupt_config", 0, 1, 0], ["interrupt_config", 1, 1, 1],
            ["open_rx_pipe", 0, A5], ["open_rx_pipe", 1, "hex:a1a2a3a4a5"],
            ["open_rx_pipe", 3, "hex:d3"], ["open_rx_pipe", 6, A5], ["close_rx_pipe", 0],
            ["close_rx_pipe", 1], ["close_rx_pipe", 7], ["open_tx_pipe", A5],
            ["open_tx_pipe", "hex:e1f0f0f0f0"]]


def gen_cases(ctx):
    """round-robin over the sub-workloads so that a shard stopped by its wall budget has still
    covered all of them"""
    gens = [iter(g) for g in _subgens(ctx)]
    while gens:
        for g in list(gens):
            for _ in range(8):
                try:
                    yield next(g)
                except StopIteration:
                    gens.remove(g)
                    break


def _subgens(ctx):
    return [_g_link(ctx), _g_send(ctx), _g_fifo(ctx), _g_cfg(ctx), _g_load_ack(ctx), _g_switch(ctx)]


def _g_link(ctx):
    rng = ctx.sub_rng("c20")
    # link integrity
    k = 0
    for case in c01.gen_cases(ctx):
        k += 1
        if case["form"] == "single" and ctx.tier == "quick" and (k * 7919 >> 3) % 3:
            continue
        tk, rk = KINDS[k % 3]
        case = dict(case, tx_kind=tk, rx_kind=rk, crc=2, auto_ack=True, sub="link")
        yield case
        if case["form"] == "single" and k % 5 == 0 and tk == "lite" and not case.get("aw_first"):
            # static lengths configured first, ACK payloads enabled afterwards: the link is in
            # dynamic mode from then on (receiving pipe 0 when the peer is the full driver)
            yield dict(case, static_cfg=rng.randrange(1, 33), static=None,
                       pre=[rng.choice(["ack_on", "ack_load"])], pipe=0 if rk == "full" else case["pipe"],
                       ask_no_ack=False)


def _g_send(ctx):
    j = 0
    for case in c02.gen_cases(ctx, kind="lite"):
        j += 1
        if ctx.tier == "quick" and j % 2:
            continue
        if case["mode"] == "aa0_off":
            case["mode"] = "aa"
        yield dict(case, sub="send")


def _g_fifo(ctx):
    j = 0
    for case in c10.gen_cases(ctx, kind="lite"):
        j += 1
        if ctx.tier == "quick" and j % 3:
            continue
        yield dict(case, sub="fifo")


def _g_cfg(ctx):
    rng = ctx.sub_rng("c20cfg")
    n = len(LITE_OPS)
    for a in range(n):
        for b in range(n):
            yield {"sub": "cfg", "ops": [LITE_OPS[a], LITE_OPS[b]], "poll": bool((a + b) & 1)}
    for w in range(150 if ctx.tier == "quick" else 10000):
        yield {"sub": "cfg", "ops": [LITE_OPS[rng.randrange(n)] for _ in range(30)],
               "poll": bool(w & 1)}


def _g_load_ack(ctx):
    for fill in range(4):
        for pipe in range(-1, 7):
            for ln in list(range(0, 35)) + [40]:
                yield {"sub": "load_ack", "fill": fill, "pipe": pipe, "len": ln}


def _g_switch(ctx):
    rng = ctx.sub_rng("c20sw")
    ops = c08.LITE_OPS
    for w in range(400 if ctx.tier == "quick" else 30000):
        L = rng.randrange(1, 9)
        yield {"sub": "switch", "kind": "lite", "aw": rng.choice([3, 4, 5]),
               "ops": [rng.choice(ops) for _ in range(L)]}
    for a in ops:
        for b in ops:
            for c in ops:
                if ctx.tier == "quick" and (a[0] == b[0] == c[0]):
                    continue
                yield {"sub": "switch", "kind": "lite", "aw": 5, "ops": [a, b, c]}


def run_case(ctx, case):
    sub = case["sub"]
    if sub == "link":
        c01.run_case(ctx, case, prefix="link/")
    elif sub == "send":
        c02.run_case(ctx, case, prefix="send/")
    elif sub == "fifo":
        c10.run_case(ctx, case, prefix="fifo/")
    elif sub == "switch":
        c08.execute(ctx, case, prefix="switch/")
    elif sub == "cfg":
        run_cfg(ctx, case)
    elif sub == "load_ack":
        run_load_ack(ctx, case)


def run_load_ack(ctx, case):
    m = repo()
    rig = Rig(seed=1)
    try:
        r = rig.radio("dut")
        d = rig.driver(r, cls=m["rf24_lite"].RF24, flavour="bus")
        d.listen = True
        for i in range(case["fill"]):
            d.load_ack(bytes([0x50 + i]) * 3, 1)
            d.update()
        if len(r.tx_fifo) != case["fill"]:
            ctx.violation("load_ack/prefill", "could not queue %d ACK payloads (%d queued)"
                          % (case["fill"], len(r.tx_fifo)), case)
            return
        before = [(bytes(e.data), e.ackpipe) for e in r.tx_fifo]
        buf = bytes((7 * i + 1) & 0xFF for i in range(case["len"]))
        del r.san[:]
        try:
            ret = d.load_ack(buf, case["pipe"])
        except Exception as e:  # noqa: BLE001
            ctx.violation("load_ack/raises", "load_ack(%d bytes, pipe %d) raised %r (documented: "
                          "no exceptions, no effect)" % (case["len"], case["pipe"], e), case)
            return
        after = [(bytes(e.data), e.ackpipe) for e in r.tx_fifo]
        ctx.clause("load_ack")
        valid = 1 <= case["len"] <= 32 and 0 <= case["pipe"] <= 5
        want = before + ([(buf, case["pipe"])] if valid and case["fill"] < 3 else [])
        if after != want or bool(ret) != (valid and case["fill"] < 3) or r.san:
            ctx.violation("load_ack/%s" % ("valid-rejected" if valid else "invalid-accepted"),
                          "load_ack(%d bytes, pipe %d) with %d payloads queued returned %r; TX "
                          "FIFO %d -> %d entries%s" % (case["len"], case["pipe"], case["fill"], ret,
                                                        len(before), len(after),
                                                        "; sanitizer: %s" % r.san[0][1] if r.san else ""),
                          case)
            return
        ctx.nontrivial(("load_ack", case["fill"], case["pipe"], case["len"]))
    finally:
        rig.close()


def run_cfg(ctx, case):
    m = repo()
    rig = Rig(seed=2)
    try:
        r = rig.radio("dut")
        d = rig.driver(r, cls=m["rf24_lite"].RF24, flavour="bus")
        model = cfg_ref.lite_initial()
        hist = []
        for op in [["noop"]] + case["ops"]:
            del r.san[:]
            alts = cfg_ref.alternatives_lite(model, op)
            exc, _ = cfg_ref.apply_to_driver(d, op)
            hist.append(op)
            snap = r.snapshot()
            ctx.clause("lite_cfg_snapshot")
            chosen = None
            for a_exc, st in alts:
                if (a_exc == exc or (a_exc in ("IndexError", "ValueError") and exc in ("IndexError", "ValueError"))) \
                        and st.cfg_bytes() == snap["cfg"] and st.ce == snap["ce"]:
                    chosen = st
                    break
            if r.san:
                ctx.violation("cfg/%s/sanitizer:%s" % (op[0], r.san[0][0]), "%s during %r (history %r)"
                              % (r.san[0][1], op, hist), case)
                return
            if chosen is None:
                st = alts[0][1]
                d_ = cfg_ref.diff_cfg(st.cfg_bytes(), snap["cfg"])
                ctx.violation("cfg/%s/%s" % (op[0], "exception" if exc != alts[0][0] and not d_ else
                                             "registers:" + ",".join(sorted({x.split()[0].rstrip("012345") for x in d_}))),
                              "lite %r raised %s (reference %s); %s; CE %s/%s (history %r)"
                              % (op, exc, alts[0][0], "; ".join(d_), snap["ce"], st.ce, hist), case)
                return
            model = chosen
            if case["poll"]:
                g = model.getters()
                for name in ("channel", "data_rate", "pa_level", "address_length", "ard", "arc",
                             "payload_length", "power", "listen"):
                    ctx.clause("lite_cfg_getter")
                    got = getattr(d, name)
                    if got != g[name]:
                        ctx.violation("cfg/getter:" + name, "lite %s returned %r, radio holds %r "
                                      "(history %r)" % (name, got, g[name], hist), case)
                        return
                if d.dynamic_payloads != bool(model.r[0x1D] & 4):
                    ctx.violation("cfg/getter:dynamic_payloads", "history %r" % (hist,), case)
                    return
                want_ack = bool(model.r[0x1D] & 6 == 6 and model.r[0x1C])
                if bool(d.ack) != want_ack:
                    ctx.violation("cfg/getter:ack", "ack=%r expected %r (history %r)"
                                  % (d.ack, want_ack, hist), case)
                    return
        ctx.nontrivial(("cfg", case["poll"], repr(case["ops"])))
    finally:
        rig.close()
