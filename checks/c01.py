"""C01 - link payload integrity.  DESIGN §4/C01."""
from checks import linkcommon as L
from vsim import world as W

PROP = "C01"
RULE = ("one transmitting RF24 and one receiving RF24 (six pipes open) on a simulated medium; "
        "a case = (payload length 0..40, bytes|bytearray, static length|dynamic, target pipe, "
        "address width, data rate, CRC length, auto-ack, ask_no_ack, single|short list|long "
        "list with a concurrently polling peer thread, SPI flavour); unique-id payloads. "
        "Non-trivial: a payload was loaded into the radio or a rejection was observed; "
        "distinct = distinct abstract case tuples (payload contents abstracted).")
RULE += (" Later rounds added: ping-pong role swaps, write()-until-refused streaming, set-up histories between opening the pipes and the traffic (role round trips, with re-entry, late address width, sender's own pipe-0 address, short re-open), blind read()-until-None drains, per-pipe static length styles, replies left unread in the sender's RX FIFO across a send(send_only=True) with forced retries and a lost first burst, static lengths configured first and ACK payloads enabled afterwards (pipe 0 dynamic from then on), one or two write_only loads before a send(), dynamic payloads switched on pipe by pipe (function form after a global off / after every pipe was switched off singly, bit mask, list).")
REQUIRED = {"bus_bytes": 500, "peer_read": 500, "buffer_unmodified": 500, "rejection_state": 20, "unread_replies_survive_send_only": 100,
            "exactly_once": 500, "pipe_attribution": 500}
ASSUMPTIONS = ["configurations respect the documented ARD/data-rate constraint",
               "with auto-ack off or ask_no_ack, a payload lost because the peer's 3-level RX "
               "FIFO was full is radio behaviour, not judged (counted separately)"]
BUDGET = {"quick": 480, "thorough": 900}
KW = {"tx_kind": "full", "rx_kind": "full"}


def _base(rng, **over):
    rate = rng.choice([1, 2, 250])
    crc = rng.choice([0, 1, 2, 2])
    c = {"drain": rng.choice(["avail", "avail", "blind"]), "junk_first": rng.random() < 0.2,
         "pl_style": rng.choice(["all", "all", "list", "asc", "desc"]),
         "pl_other": [rng.randrange(1, 33) for _ in range(6)],
         "channel": rng.randrange(126), "rate": rate, "aw": rng.choice([3, 4, 5]), "crc": crc,
         "auto_ack": bool(crc) and rng.random() < 0.75, "ask_no_ack": rng.random() < 0.25,
         "pipe": rng.randrange(6), "flavour": rng.choice(["pin", "hwcs", "bus"]),
         "btype": rng.choice(["bytes", "bytearray"]), "static": None, "form": "single",
         "lens": [5], "seed": rng.getrandbits(30), "ard": None, "pingpong": rng.random() < 0.3,
         "plus": rng.random() < 0.9}
    c.update(over)
    return c


def gen_cases(ctx):
    rng = ctx.sub_rng("c01")
    # stratified: every length x mode boundary, every pipe
    k = 0
    for btype in ("bytes", "bytearray"):
        for n in range(41):
            modes = [None, 1, 32]
            for s in (n - 1, n, n + 1):
                if 1 <= s <= 32 and s not in modes:
                    modes.append(s)
            modes.append(rng.randrange(1, 33))
            for s in modes:
                k += 1
                yield _base(rng, btype=btype, static=s, lens=[n], pipe=k % 6)
    # lists
    nlist = 250 if ctx.tier == "quick" else 20000
    for i in range(nlist):
        static = None if rng.random() < 0.5 else rng.randrange(1, 33)
        if i % 2:
            lens = [rng.randrange(1, 33) for _ in range(rng.randrange(2, 4))]
            form = "list"
        else:
            lens = [rng.randrange(1, 33) for _ in range(rng.randrange(4, 13))]
            form = "longlist"
        yield _base(rng, static=static, lens=lens, form=form,
                    container=rng.choice(["list", "tuple"]))
    # streaming through write(): keep loading until write() refuses, like examples/stream master_fifo()
    for i in range(120 if ctx.tier == "quick" else 8000):
        static = None if rng.random() < 0.5 else rng.randrange(1, 33)
        lens = [rng.randrange(1, 33) for _ in range(rng.randrange(4, 13))]
        yield _base(rng, static=static, lens=lens, form="stream", crc=2, auto_ack=True, ask_no_ack=False)
    # lists containing an invalid element in dynamic mode (rejected mid-list)
    for i in range(40 if ctx.tier == "quick" else 2000):
        lens = [rng.randrange(1, 33), rng.choice([0, 33, 40]), rng.randrange(1, 33)]
        yield _base(rng, static=None, lens=lens, form="list", container="list")
    for i in range(4000 if ctx.tier == "quick" else 0):
        static = None if rng.random() < 0.4 else rng.randrange(1, 33)
        yield _base(rng, static=static, lens=[rng.randrange(0, 41)])
    # set-up histories: legal calls between opening the pipes and the traffic (role round trips,
    # `with` re-entry, the sender listening on a pipe-0 address of its own, the address width
    # assigned after the pipes were opened)
    for i in range(2500 if ctx.tier == "quick" else 60000):
        static = None if rng.random() < 0.5 else rng.randrange(1, 33)
        pre = [rng.choice(L.PRE_OPS) for _ in range(rng.randrange(1, 6))]
        over = {"pre": pre}
        if rng.random() < 0.3:
            over["aw_first"] = rng.choice([3, 4, 5])
        yield _base(rng, static=static, lens=[rng.randrange(1, 33)], **over)
    rng2 = ctx.sub_rng("c01b")
    for i in range(300 if ctx.tier == "quick" else 8000):
        static = None if rng2.random() < 0.5 else rng2.randrange(1, 33)
        yield _base(rng2, static=static, form="preload", lens=[rng2.randrange(1, 33) for _ in range(rng2.choice([2, 3]))],
                    crc=rng2.choice([1, 2]), auto_ack=True, ask_no_ack=False, junk_first=False)
    # static lengths configured first, ACK payloads enabled afterwards on both ends (`ack = True`
    # or an implicit one through load_ack()): pipe 0 is in dynamic mode from then on - payloads
    # arrive unpadded, lengths 0 and 33..40 are rejected
    for i in range(400 if ctx.tier == "quick" else 12000):
        yield _base(rng2, static=None, static_cfg=rng2.randrange(1, 33), pre=[rng2.choice(["ack_on", "ack_load"])],
                    pipe=0, auto_ack=True, crc=rng2.choice([1, 2]), ask_no_ack=False, pingpong=False,
                    junk_first=False, lens=[rng2.choice([rng2.randrange(0, 41), rng2.randrange(1, 33)])])
    # dynamic payloads switched on pipe by pipe: after a global off through the function form, after
    # every pipe was switched off singly, as a bit mask, as a list
    rng3 = ctx.sub_rng("c01c")
    for i in range(500 if ctx.tier == "quick" else 15000):
        over = {"dyn_style": rng3.choice(["off_then_pipes", "off_then_pipes", "pipes_off_then_on", "mask", "list"])}
        if rng3.random() < 0.3:
            over["pre"] = [rng3.choice(L.PRE_OPS) for _ in range(rng3.randrange(1, 4))]
        yield _base(rng3, static=None, lens=[rng3.choice([rng3.randrange(0, 41), rng3.randrange(1, 33)])], **over)
    if ctx.tier == "thorough":
        for btype in ("bytes", "bytearray"):
            for n in range(41):
                for s in [None] + list(range(1, 33)):
                    yield _base(rng, btype=btype, static=s, lens=[n])
        for i in range(300000):
            static = None if rng.random() < 0.4 else rng.randrange(1, 33)
            yield _base(rng, static=static, lens=[rng.randrange(0, 41)])


def sig_of(case):
    return (tuple(case["lens"]), case["btype"], case["static"], case["pipe"], case["aw"],
            case["rate"], case["crc"], case["auto_ack"], case["ask_no_ack"], case["form"],
            case["flavour"], case.get("tx_kind"), case.get("rx_kind"), tuple(case.get("pre", ())),
            case.get("aw_first"), case.get("drain"), case.get("pl_style"), case.get("static_cfg"), case.get("dyn_style"))


def run_case(ctx, case, kinds=None, prefix=""):
    case = dict(case)
    if kinds:
        case.update(kinds)
    threaded = case["form"] in ("longlist", "stream")
    pair = L.Pair(ctx, case, threaded=threaded)
    try:
        if threaded:
            _run_threaded(ctx, case, pair, prefix)
        else:
            _run_single(ctx, case, pair, prefix)
    finally:
        pair.close()


def _mk_bufs(case):
    import random
    rng = random.Random(case["seed"])
    bufs = []
    for i, n in enumerate(case["lens"]):
        b = L.make_payload(rng, n, i + 1)
        bufs.append(bytes(b) if case["btype"] == "bytes" else bytearray(b))
    return bufs


def _valid(case, n):
    return case["static"] is not None or 1 <= n <= 32


def _tx_bytes_on_bus(radio):
    return [(c, d) for c, d in radio.ops if c in (0xA0, 0xB0)]


def _drain(rx, blind=False):
    got = []
    if blind:
        # the idiom of the network layer: read() until it returns None, no other call in between
        # (the pipe number is not asked for: that would be another transaction)
        for _ in range(8):
            data = rx.read()
            if data is None:
                break
            got.append((None, bytes(data)))
        return got
    for _ in range(8):
        if not rx.available():
            break
        pipe = rx.pipe
        data = rx.read()
        got.append((pipe, bytes(data) if data is not None else None))
    return got


def _check_buffers(ctx, case, bufs, copies, ids, prefix):
    for b, c, i in zip(bufs, copies, ids):
        ctx.clause("buffer_unmodified")
        if id(b) != i or len(b) != len(c) or bytes(b) != c:
            ctx.violation(prefix + "caller-buffer-modified",
                          "caller's %s of %d bytes is %d bytes after the call (static=%r)"
                          % (case["btype"], len(c), len(b), case["static"]), case)
            return False
    return True


def _run_single(ctx, case, pair, prefix):
    tx, rx, rt, rr = pair.tx, pair.rx, pair.rt, pair.rr
    bufs = _mk_bufs(case)
    copies = [bytes(b) for b in bufs]
    ids = [id(b) for b in bufs]
    if case.get("junk_first") and case["static"] is None and case.get("rx_kind", "full") == "full":
        # an earlier payload of another length that the receiver sized up with any() and then threw
        # away with flush_rx() instead of reading it
        jl = (len(bufs[0]) % 31) + 1 if bufs else 7
        if bufs and jl == len(bufs[0]):
            jl = jl % 31 + 1
        tx.send(b"J" * jl, ask_no_ack=case["ask_no_ack"])
        pair.rig.node.idle(2 * W.MS)
        if rx.available():
            rx.any()
            rx.flush_rx()
        ctx.count("junk_sized_up_and_flushed")
    rt.ops.clear()
    del rt.san[:]
    air0 = len(pair.rig.air.log)
    before = rt.snapshot()
    rx_before = rr.snapshot()
    arg = bufs[0] if case["form"] == "single" else (
        tuple(bufs) if case.get("container") == "tuple" else list(bufs))
    invalid = [n for n in case["lens"] if not _valid(case, n)]
    exc = None
    node = pair.rig.node
    node.deadline = node.t + 400 * W.MS * len(bufs)
    try:
        if case["form"] == "preload":
            # one or two payloads loaded without starting the transmission (write_only), then send():
            # everything goes out in the order it was handed over
            for b in bufs[:-1]:
                tx.write(b, ask_no_ack=case["ask_no_ack"], write_only=True)
            tx.send(bufs[-1], ask_no_ack=case["ask_no_ack"])
            ctx.count("sends_after_write_only_loads")
        else:
            tx.send(arg, ask_no_ack=case["ask_no_ack"])
    except ValueError as e:
        exc = e
    except W.VirtualDeadline:
        ctx.violation(prefix + "send-does-not-return", "send() of lengths %r (static=%r) did not "
                      "return within %d virtual ms" % (case["lens"], case["static"],
                                                       400 * len(bufs)), case)
        return
    finally:
        node.deadline = None
    # (after pre-loaded payloads send() returns on the first one; the others are still going out)
    pair.rig.node.idle((15 if case["form"] == "preload" else 2) * W.MS)
    loaded = _tx_bytes_on_bus(rt)
    if invalid:
        ctx.clause("rejection_state")
        if exc is None:
            ctx.violation(prefix + "invalid-length-not-rejected",
                          "lengths %r in dynamic mode: no ValueError" % case["lens"], case)
            return
        # payloads before the first invalid element are legitimately sent
        first_bad = next(i for i, n in enumerate(case["lens"]) if not _valid(case, n))
        exp = [L.expected_bytes(b, case["static"]) for b in copies[:first_bad]]
        if [d for _, d in loaded] != exp:
            ctx.violation(prefix + "rejected-payload-reached-radio",
                          "W_TX_PAYLOAD %r after rejecting lengths %r"
                          % ([d.hex() for _, d in loaded], case["lens"]), case)
            return
        if first_bad == 0:
            after = rt.snapshot()
            # send()'s documented prologue discards a payload left over from an earlier FAILED
            # transmission (MAX_RT standing) before the new buffer is looked at: that flush is not
            # "something reaching the radio" (thorough run #11: a set-up history whose last call made
            # the junk payload fail - the rejected send() then emptied the TX FIFO)
            stale_flush = bool(before["flags"] & 0x10) and before["tx"] and not after["tx"]
            if stale_flush:
                ctx.count("rejected_send_flushed_a_leftover_failed_payload")
            if (after["cfg"] != before["cfg"] or (after["tx"] != before["tx"] and not stale_flush)
                    or after["rx"] != before["rx"] or len(pair.rig.air.log) != air0
                    or rr.snapshot()["rx"] != rx_before["rx"]):
                ctx.violation(prefix + "rejection-changed-radio-state",
                              "state changed before ValueError: cfg %s->%s air %d->%d"
                              % (before["cfg"].hex(), after["cfg"].hex(), air0,
                                 len(pair.rig.air.log)), case)
                return
        _check_buffers(ctx, case, bufs, copies, ids, prefix)
        ctx.nontrivial(sig_of(case))
        got = _drain(rx)
        if [g[1] for g in got] != exp:
            ctx.violation(prefix + "list-prefix-delivery",
                          "peer read %r, expected the valid prefix %r" % (got, exp), case)
        return
    if exc is not None:
        ctx.violation(prefix + "spurious-ValueError", "%r for lengths %r static=%r"
                      % (exc, case["lens"], case["static"]), case)
        return
    exp = [L.expected_bytes(b, case["static"]) for b in copies]
    ctx.clause("bus_bytes")
    want_cmd = 0xB0 if case["ask_no_ack"] else 0xA0
    if [d for _, d in loaded] != exp or any(c != want_cmd for c, _ in loaded):
        ctx.violation(prefix + "bus-payload-bytes",
                      "W_TX_PAYLOAD on the bus %r, expected cmd 0x%02X %r"
                      % ([(hex(c), d.hex()) for c, d in loaded], want_cmd,
                         [e.hex() for e in exp]), case)
        return
    if rt.san:
        ctx.violation(prefix + "sanitizer:" + rt.san[0][0], rt.san[0][1], case)
        return
    if not _check_buffers(ctx, case, bufs, copies, ids, prefix):
        return
    if case["seed"] % 4 == 1:
        # the receiving application asserts its role once more before it reads (examples do this at
        # the top of their receive functions): what has arrived stays where it is
        rx.listen = True
        ctx.count("listen_asserted_again_before_reading")
    blind = case.get("drain") == "blind" and case.get("rx_kind", "full") == "full"
    got = _drain(rx, blind)
    if blind:
        got = [(case["pipe"], d) for _, d in got]
    ctx.clause("peer_read")
    ctx.clause("exactly_once")
    ctx.clause("pipe_attribution")
    lost_full = any(o == "rx_full" for p in pair.rig.air.log[air0:] for _, o in p.outcomes)
    unacked = (not case["auto_ack"]) or case["ask_no_ack"]
    datas = [g[1] for g in got]
    if datas != exp:
        if lost_full and unacked and _is_subseq(datas, exp):
            ctx.count("unacked_fifo_overflow_cases")
        else:
            ctx.violation(prefix + "peer-read-mismatch",
                          "peer read %r, sent %r (static=%r lens=%r)"
                          % ([d.hex() if d is not None else None for d in datas],
                             [e.hex() for e in exp], case["static"], case["lens"]), case,
                          {"air": [p.brief() for p in pair.rig.air.log[air0:][:8]]})
            return
    if any(g[0] != case["pipe"] for g in got):
        ctx.violation(prefix + "wrong-pipe", "payload sent to pipe %d reported on %r"
                      % (case["pipe"], [g[0] for g in got]), case)
        return
    if rx.available():
        ctx.violation(prefix + "extra-payload", "peer has more payloads than were sent", case)
        return
    if case.get("pingpong") and case.get("tx_kind", "full") == "full" and case.get("rx_kind", "full") == "full":
        # roles swap: the former receiver answers on its own TX address
        back = L.make_payload(__import__("random").Random(case["seed"] ^ 0xBAC), max(1, case["lens"][0] % 33) or 1, 0x77)
        tx.listen = True
        pair.rig.node.idle(400000)
        rx.listen = False
        r2 = rx.send(bytes(back), ask_no_ack=case["ask_no_ack"])
        pair.rig.node.idle(2 * W.MS)
        got2 = _drain(tx)
        exp2 = [L.expected_bytes(bytes(back), case["static"])]
        ctx.clause("peer_read")
        if [g[1] for g in got2] != exp2 or any(g[0] != 1 for g in got2):
            ctx.violation(prefix + "pingpong-reply-mismatch", "after the roles were swapped the reply %s "
                          "sent to the first sender's pipe 1 was read as %r (send returned %r)"
                          % (exp2[0].hex(), got2, r2), case)
            return
        # and forward again: the first receiver must still hear its pipe addresses (incl. pipe 0)
        rx.listen = True
        pair.rig.node.idle(400000)
        tx.listen = False
        again = bytes(L.make_payload(__import__("random").Random(case["seed"] ^ 0xF0D), max(1, len(exp[0])), 0x99)) if exp else b"x"
        tx.send(again, ask_no_ack=case["ask_no_ack"])
        pair.rig.node.idle(2 * W.MS)
        got3 = _drain(rx)
        exp3 = [L.expected_bytes(again, case["static"])]
        if [g[1] for g in got3] != exp3 or any(g[0] != case["pipe"] for g in got3):
            ctx.violation(prefix + "pingpong-second-round-mismatch", "second forward payload to pipe %d "
                          "after a role swap was read as %r, expected %s" % (case["pipe"], got3, exp3[0].hex()), case)
            return
        if case["seed"] % 2 == 0:
            # replies the first sender has not read yet survive its next send(send_only=True) -
            # "the RX FIFO is not flushed" - also when that send needs its forced retries
            k_unread = 1 + (case["seed"] >> 3) % 3
            fr = (case["seed"] >> 5) % 3
            fail_first = bool((case["seed"] >> 7) % 2)
            rnd = __import__("random").Random(case["seed"] ^ 0x5E0)
            tx.listen = True
            pair.rig.node.idle(400000)
            rx.listen = False
            replies = [bytes(L.make_payload(rnd, rnd.randrange(1, 33), 0x30 + i)) for i in range(k_unread)]
            for b in replies:
                rx.send(b, ask_no_ack=case["ask_no_ack"])
            pair.rig.node.idle(2 * W.MS)
            tx.listen = False  # without reading
            rx.listen = True
            pair.rig.node.idle(400000)
            waiting = len(rt.rx_fifo)
            fwd = bytes(L.make_payload(rnd, rnd.randrange(1, 33), 0x55))
            left = [(1 + tx.arc) if fail_first else 0]

            def drop(pkt, rxr):
                if pkt.kind == "data" and pkt.src is rt and left[0] > 0:
                    left[0] -= 1
                    return True
                return False
            prev_fault = pair.rig.air.fault
            pair.rig.air.fault = drop
            node.deadline = node.t + 400 * W.MS
            try:
                r4 = tx.send(fwd, ask_no_ack=case["ask_no_ack"], force_retry=fr, send_only=True)
            except W.VirtualDeadline:
                ctx.violation(prefix + "send-does-not-return", "send(send_only=True, force_retry=%d) did not return" % fr, case)
                return
            finally:
                node.deadline = None
                pair.rig.air.fault = prev_fault
            pair.rig.node.idle(2 * W.MS)
            got4 = [g[1] for g in _drain(rx)]
            exp4 = L.expected_bytes(fwd, case["static"])
            mine = _drain(tx)
            expr = [L.expected_bytes(b, case["static"]) for b in replies][:waiting]
            ctx.clause("unread_replies_survive_send_only")
            if [g[1] for g in mine] != expr or any(g[0] != 1 for g in mine):
                ctx.violation(prefix + "unread-replies-lost-by-send-only", "%d replies waited unread in the sender's RX "
                              "FIFO; after send(send_only=True, force_retry=%d) -> %r (first burst %s) it reads %r, "
                              "expected %r on pipe 1" % (waiting, fr, r4, "lost" if fail_first else "heard",
                                                         [(g[0], g[1].hex()) for g in mine], [e.hex() for e in expr]), case)
                return
            if got4 not in ([], [exp4]) or (r4 is True and unacked is False and got4 != [exp4]):
                ctx.violation(prefix + "peer-read-mismatch", "payload sent with send_only=True, force_retry=%d "
                              "(-> %r) was read by the peer as %r" % (fr, r4, [g.hex() for g in got4]), case)
                return
            ctx.count("send_only_with_%d_unread_fr%d_%s" % (waiting, fr, "lostburst" if fail_first and not unacked else "clean"))
    ctx.nontrivial(sig_of(case))
    ctx.sample({"case": {k: case[k] for k in ("lens", "btype", "static", "pipe", "aw", "rate",
                                               "crc", "auto_ack", "ask_no_ack", "form", "flavour")},
                "air_packets": len(pair.rig.air.log) - air0, "peer_reads": len(got)})


def _is_subseq(a, b):
    it = iter(b)
    return all(x in it for x in a)


def _run_threaded(ctx, case, pair, prefix):
    tx, rx, rt = pair.tx, pair.rx, pair.rt
    world = pair.rig.world
    bufs = _mk_bufs(case)
    copies = [bytes(b) for b in bufs]
    ids = [id(b) for b in bufs]
    got = []
    res = {}
    rt.ops.clear()
    air0 = len(pair.rig.air.log)

    def sender():
        arg = tuple(bufs) if case.get("container") == "tuple" else list(bufs)
        pair.n_tx.deadline = pair.n_tx.t + 3000 * W.MS
        if case["form"] == "stream":
            # the documented non-blocking use of write(): a False return means "TX FIFO full,
            # nothing loaded" - wait for room (re-starting a failed payload) and try again
            accepted = 0
            for b in bufs:
                while not tx.write(b):
                    tx.update()
                    if tx.irq_df:
                        tx.ce_pin = False
                        tx.clear_status_flags(False, False, True)
                        tx.ce_pin = True
                    pair.n_tx.idle(150 * W.US)
                accepted += 1
            for _ in range(400):  # let the FIFO drain
                if tx.fifo(True, True):
                    break
                if tx.irq_df:
                    tx.ce_pin = False
                    tx.clear_status_flags(False, False, True)
                    tx.ce_pin = True
                pair.n_tx.idle(200 * W.US)
            res["ret"] = accepted
        else:
            res["ret"] = tx.send(arg, ask_no_ack=case["ask_no_ack"])
        pair.n_tx.deadline = None
        pair.n_tx.idle(5 * W.MS)

    def receiver():
        node = pair.n_rx
        while True:
            if rx.available():
                pipe = rx.pipe
                d = rx.read()
                got.append((pipe, bytes(d) if d is not None else None))
            else:
                node.idle(node.profile.poll)

    W.World.unbind()
    pair.n_rx.t = pair.n_tx.t
    world.spawn(pair.n_tx, sender)
    world.spawn(pair.n_rx, receiver, daemon=True)
    ok = world.run(wall_timeout=60)
    world.bind(pair.n_tx)
    if not ok:
        ctx.count("watchdog_inconclusive")
        return
    if pair.n_tx.exc is not None or pair.n_rx.exc is not None:
        ctx.violation(prefix + "exception-in-long-list", "%r / %r" % (pair.n_tx.exc, pair.n_rx.exc),
                      case)
        return
    exp = [L.expected_bytes(b, case["static"]) for b in copies]
    loaded = _tx_bytes_on_bus(rt)
    ctx.clause("bus_bytes")
    if [d for _, d in loaded] != exp:
        ctx.violation(prefix + "bus-payload-bytes", "long list: bus %r expected %r"
                      % ([d.hex() for _, d in loaded], [e.hex() for e in exp]), case)
        return
    if not _check_buffers(ctx, case, bufs, copies, ids, prefix):
        return
    ctx.clause("peer_read")
    ctx.clause("exactly_once")
    ctx.clause("pipe_attribution")
    datas = [g[1] for g in got]
    lost_full = any(o == "rx_full" for p in pair.rig.air.log[air0:] for _, o in p.outcomes)
    unacked = (not case["auto_ack"]) or case["ask_no_ack"]
    if datas != exp:
        if lost_full and unacked and _is_subseq(datas, exp):
            ctx.count("unacked_fifo_overflow_cases")
        else:
            ctx.violation(prefix + "peer-read-mismatch",
                          "long list: peer read %d payloads %r, sent %r (ret=%r)"
                          % (len(datas), [d.hex() if d else d for d in datas][:6],
                             [e.hex() for e in exp][:6], res.get("ret")), case)
            return
    if any(g[0] != case["pipe"] for g in got):
        ctx.violation(prefix + "wrong-pipe", "long list: pipes %r" % [g[0] for g in got], case)
        return
    ctx.count("threaded_cases")
    ctx.count("baton_switches", world.n_switches)
    ctx.nontrivial(sig_of(case))
