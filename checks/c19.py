"""C19 - received BLE packets decode to what was advertised; all else is ignored safely.
DESIGN §4/C19."""
import random

from refmodels import ble_ref
from vsim import world as W
from vsim.rig import Rig, repo

PROP = "C19"
RULE = ("(a) FakeBLE -> FakeBLE over the simulated air on all three channels and (b) packets from "
        "the independent reference encoder placed in the receiver's RX FIFO: name / PA level / "
        "battery 0..255 / temperature -300.00..+300.00 (exact hundredths) / Eddystone URL + TX "
        "power / raw chunks; every single-bit and sampled double-bit corruption of valid packets; "
        "CRC-valid packets with adversarial AD structures (length 0, length past the end, service "
        "data of 0..2 bytes, unknown types, length byte < 6 and >= 30); random 32-byte payloads; "
        "1..3 packets queued before reading. Oracle: element-wise equality with what was "
        "advertised at the service's resolution, nothing queued for inconsistent length/CRC, no "
        "exception from available(), read() in arrival order. Non-trivial: a packet was decoded "
        "or rejected by the reference; distinct = (packet class, field shapes, channel).")
RULE += (" Later rounds added: queued packets read only after the receiving object's with block was left (another object using the radio meanwhile); reserved length bits, per-packet TX power without re-toggling, damaged repeats of a packet the receiver has just accepted, URLs with several expansion codes, byte / multi-byte names and the complete-name type, a with boundary after the channel was assigned, the air kind on all three channels, zero-length names, temperatures whose sign alternates from packet to packet, a foreign capture (noise / an over-long advertisement) at the head of the RX FIFO with the known packet behind it.")
REQUIRED = {"valid_decoded_equal": 600, "corrupted_not_queued": 1500, "available_never_raises": 3000,
            "read_order": 200, "service_values": 400}
BUDGET = {"quick": 480, "thorough": 900}

CH = [2, 26, 80]


def name_value(n):
    """what is assigned / encoded: str stays str, {"hex": ..} is a bytes name"""
    return bytes.fromhex(n["hex"]) if isinstance(n, dict) else n


def name_expected(n):
    """what the receiver must report: text when the bytes are valid UTF-8, the bytes otherwise"""
    v = name_value(n)
    if isinstance(v, bytes):
        try:
            return v.decode()
        except UnicodeError:
            return v
    return v


def gen_cases(ctx):
    for i, case in enumerate(_gen_cases(ctx)):
        if case.get("empty_name"):
            case["name"] = ["", {"hex": ""}][i % 46 == 5]
        yield case


def _gen_cases(ctx):
    rng = ctx.sub_rng("c19")
    n = 3000 if ctx.tier == "quick" else 120000
    for i in range(n):
        kind = ["air", "ref", "ref", "adversarial", "random", "corrupt"][i % 6]
        svc = rng.choice(["battery", "temperature", "url", "raw", "none", "two"])
        empty_name = [None, "", {"hex": ""}][(i % 23 == 5) + (i % 46 == 5)]  # a zero-length name now and then
        yield {"kind": kind, "svc": svc, "chan": (i // 6 + i) % 3, "empty_name": empty_name is not None,
               # str names, one-character names, byte names that are not valid UTF-8 (kept as bytes
               # by the receiver), UTF-8 multi-byte names; short-name (0x08) and complete-name (0x09) types
               "name": rng.choice([None, None, "n", "nRF24", "abcdefgh", {"hex": "80"}, {"hex": "6e52ff34"},
                                   {"hex": "c3a9c3a8"}, {"hex": "41c3"}, "\u00e9t\u00e9"]),
               "name_type": rng.choice([8, 8, 9]),
               "pa": rng.random() < 0.35, "pa_level": rng.choice([-18, -12, -6, 0]),
               "batt": rng.choice([0, 1, 100, 255, rng.randrange(256)]),
               "temp": rng.choice([0, 29, 28, -1, -525, 3210, -30000, 30000, 1, 99, 101,
                                   rng.randrange(-30000, 30001)]),
               "url": rng.choice(["http://www.google.com", "https://null.com/", "https://a.org/x",
                                  "http://b.info", "https://www.c.net/q",
                                  # several (different / equal) expansion codes in one URL
                                  "http://a.com/b.org", "https://www.x.org/y.net", "http://t.info/a.biz/",
                                  "https://a.gov/?u=b.edu", "http://a.com/b.com/", "https://x.net.org.edu",
                                  "http://www.a.biz.gov/", "https://q.info/.com"]),
               "txp": rng.choice([-25, 0, 20, -100, 127, -128]),
               "raw_len": rng.randrange(1, 10), "queue": rng.choice([1, 1, 2, 3]) if svc != "url" else rng.choice([2, 3]),
               "seed": rng.getrandbits(30)}
    # temperature sweep (exact hundredths, both signs)
    step = 97 if ctx.tier == "quick" else 7
    for t in list(range(-30000, 30001, step)) + [-1, 1, 29, -29, 57, 58, 115, 2999, -2999]:
        yield {"kind": "temp_sweep", "temp": t, "chan": t % 3, "seed": t & 0xFFFF}
    for b in range(0, 256, 5 if ctx.tier == "quick" else 1):
        yield {"kind": "batt_sweep", "batt": b, "chan": b % 3, "seed": b}


def mk_rx(rig, F, chan, boundary=False):
    rr = rig.radio("rx")
    rx = rig.driver(rr, cls=F.FakeBLE)
    rx.channel = CH[chan]
    if boundary:
        # the channel was chosen by assignment; then a `with` boundary (as when another object
        # used the radio in between) - the object must come back on the channel it was given
        rx.__exit__(None, None, None)
        rx.__enter__()
    rx.listen = True
    return rr, rx


def describe(q):
    out = []
    for x in q.data:
        if isinstance(x, (bytes, bytearray)):
            out.append(("raw", bytes(x)))
        else:
            out.append((type(x).__name__, x.data, getattr(x, "pa_level_at_1_meter", None)))
    return out


def run_case(ctx, case):
    m = repo()
    F = m["fake_ble"]
    rng = random.Random(case["seed"])
    F.urandom = lambda n: bytes(rng.getrandbits(8) for _ in range(n))
    rig = Rig(seed=case["seed"])
    try:
        kind = case["kind"]
        if kind in ("temp_sweep", "batt_sweep"):
            return run_sweep(ctx, case, rig, F, rng)
        rr, rx = mk_rx(rig, F, case["chan"], case.get("seed", 0) % 3 == 0)
        node = rig.node
        node.idle(400000)
        chidx = 37 + case["chan"]
        mac = bytes(rng.getrandbits(8) for _ in range(6))
        expected = []  # one per packet that must be queued: (mac, name, pa, [service descr])

        def safe_available():
            ctx.clause("available_never_raises")
            try:
                return rx.available(), None
            except Exception as e:  # noqa: BLE001
                return None, e

        if kind == "air":
            rt = rig.radio("tx")
            tx = rig.driver(rt, cls=F.FakeBLE)
            tx.channel = CH[case["chan"]]
            if case["seed"] % 4 == 1:
                tx.__exit__(None, None, None)
                tx.__enter__()
            tx.listen = False
            tx.mac = mac
            nq = case["queue"]
            fitted_once = False
            for j in range(nq):
                name = name_expected(case["name"])
                if j == 0:  # configured once per session
                    tx.name = name_value(case["name"])
                # a beacon that changes its power between two advertisements of one session
                pa_j = [-18, -12, -6, 0][([-18, -12, -6, 0].index(case["pa_level"]) + j) % 4]
                if j == 0:
                    tx.pa_level = pa_j
                    try:
                        tx.show_pa_level = case["pa"]
                    except ValueError:
                        pass
                else:
                    tx.pa_level = pa_j
                if j == 0 or case["seed"] % 2:
                    svcs, descr = build_lib_services(F, case, rng, j, tx.len_available())
                    adv_list = [F.chunk(s.buffer) if not isinstance(s, bytes) else F.chunk(s, 0xFF) for s in svcs]
                # (every other case advertises the very same list of chunk objects again)
                snapshot = [bytes(c) for c in adv_list]
                try:
                    tx.advertise(adv_list)
                except ValueError:
                    if j and not case["seed"] % 2 and fitted_once:
                        ctx.violation("advertise-again-raises", "advertising the same list of chunks a second time raised "
                                      "ValueError although it fitted the first time", case)
                        return
                    ctx.count("advertise_too_long_skipped")
                    continue
                fitted_once = True
                if [bytes(c) for c in adv_list] != snapshot:
                    ctx.violation("advertise-modified-chunks", "advertise() changed the caller's chunk objects: %r -> %r"
                                  % ([c.hex() for c in snapshot], [bytes(c).hex() for c in adv_list]), case)
                    return
                node.idle(600000)
                expected.append((mac, name, pa_j if tx.show_pa_level else None, descr))
        elif kind == "ref":
            for j in range(case["queue"]):
                ads = [(0x01, b"\x05")]
                if case["pa"]:
                    ads.append((0x0A, bytes([case["pa_level"] & 0xFF])))
                if case["name"] is not None:
                    nv = name_value(case["name"])
                    ads.append((case.get("name_type", 8), nv.encode() if isinstance(nv, str) else nv))
                sads, descr = build_ref_services(case, rng, j)
                used = sum(2 + len(d) for _, d in ads)
                sads2, descr2 = [], []
                for a, dsc in zip(sads, descr):
                    if 6 + used + 2 + len(a[1]) + 3 + 2 <= 32:
                        sads2.append(a)
                        descr2.append(dsc)
                        used += 2 + len(a[1])
                pl = ble_ref.encode(mac, ads + sads2, chidx, pad=bytes(rng.getrandbits(8) for _ in range(32)))
                rr.inject_rx(0, pl)
                expected.append((mac, name_expected(case["name"]), case["pa_level"] if case["pa"] else None, descr2))
        elif kind == "adversarial":
            area = adversarial_area(rng)
            lo = rng.choice([None, None, None, 0, 3, 5, 28, 30, 31, 63, "rfu40", "rfu80", "rfuC0"])
            area = area[: 32 - 2 - 6 - 3]
            if isinstance(lo, str):  # consistent 6-bit length with a reserved (RFU) bit set
                lo = (6 + len(area)) | int(lo[3:], 16)
            pl = ble_ref.encode_raw(mac, area, chidx, length_override=lo,
                                    pad=bytes(rng.getrandbits(8) for _ in range(32)))
            rr.inject_rx(0, pl)
        elif kind == "random":
            for _ in range(case["queue"]):
                rr.inject_rx(0, bytes(rng.getrandbits(8) for _ in range(32)))
        elif kind == "corrupt":
            ads = [(0x01, b"\x05"), (0x08, b"dev"), ble_ref.battery_ad(case["batt"])]
            good = ble_ref.encode(mac, ads, chidx, pad=bytes(8))
            nbits = (2 + 6 + sum(2 + len(d) for _, d in ads) + 3) * 8
            flips = list(range(nbits)) if ctx.tier == "thorough" or True else []
            rng.shuffle(flips)
            for fi, f in enumerate(flips[: (nbits if ctx.tier == "thorough" else 40)]):
                if fi % 4 == 0:
                    # the receiver has just accepted the undamaged packet (a damaged repeat of a
                    # packet it knows is the realistic case)
                    rr.rx_fifo.clear()
                    rr.inject_rx(0, bytes(good))
                    av, exc = safe_available()
                    ctx.clause("valid_before_corrupted")
                    if exc is not None or len(rx.rx_queue) != 1:
                        ctx.violation("valid-packet-count/ref", "the undamaged packet was not queued before its "
                                      "damaged repeats (available() -> %r, %r; queue %d)" % (av, exc, len(rx.rx_queue)), case)
                        return
                    del rx.rx_queue[:]
                if fi % 4 == 2:
                    # one poll finds several captures waiting: something that is not for us at the head
                    # (noise / a legal advertisement too long for this radio), the known packet behind it
                    head = [bytes(rng.getrandbits(8) for _ in range(32)),
                            ble_ref.encode(mac, [(0xFF, bytes(rng.getrandbits(8) for _ in range(22)))], chidx)][(fi // 4) % 2]
                    rr.rx_fifo.clear()
                    rr.inject_rx(0, head)
                    rr.inject_rx(0, bytes(good))
                    exc = None
                    for _ in range(4):
                        av, exc = safe_available()
                        if exc is not None or not rr.rx_fifo:
                            break
                    ctx.clause("valid_behind_foreign_capture")
                    if exc is not None or len(rx.rx_queue) != 1 or bytes(rx.rx_queue[0].mac) != mac:
                        ctx.violation("valid-packet-count/behind-foreign", "a %s at the head of the RX FIFO and the known "
                                      "packet behind it: %d element(s) queued (%r)"
                                      % (["noise payload", "over-long advertisement"][(fi // 4) % 2], len(rx.rx_queue), exc), case)
                        return
                    del rx.rx_queue[:]
                bad = bytearray(good)
                bad[f // 8] ^= 1 << (f % 8)
                if rng.random() < 0.3:
                    g = rng.randrange(nbits)
                    if g != f:
                        bad[g // 8] ^= 1 << (g % 8)
                rr.rx_fifo.clear()
                rr.inject_rx(0, bytes(bad))
                av, exc = safe_available()
                ctx.clause("corrupted_not_queued")
                if exc is not None:
                    ctx.violation("available-raises/corrupted/%s" % type(exc).__name__,
                                  "available() raised %r on a corrupted packet" % exc, case)
                    return
                # decide with the reference whether the corrupted capture is still consistent
                d = ble_ref.phone_decode(b"\x71\x91\x7d\x6b", bytes(bad), CH[case["chan"]])
                if rx.rx_queue and not d["ok"]:
                    ctx.violation("corrupted-packet-queued", "a packet with bit %d flipped (reference: %s) "
                                  "was queued" % (f, d.get("why")), case)
                    return
                del rx.rx_queue[:]
            ctx.nontrivial(("corrupt", case["chan"], case["batt"] % 4))
            return
        # ---- receive
        got = []
        for _ in range(6):
            av, exc = safe_available()
            if exc is not None:
                ctx.violation("available-raises/%s/%s" % (kind, type(exc).__name__),
                              "available() raised %r (%s packet)" % (exc, kind), case,
                              {"fifo": [d.hex() for _, d in rr.rx_fifo]})
                return
            if not rr.rx_fifo:
                break
        if (case["seed"] >> 4) % 3 == 0:
            # the application reads later: the receiving object's `with` block is left first (another
            # object gets the radio for a while) - what available() queued is still there afterwards
            rx.__exit__(None, None, None)
            if (case["seed"] >> 6) % 2:
                with rig.driver(rr) as other:
                    other.channel = 40
            ctx.clause("read_after_the_with_block_was_left")
        while True:
            q = rx.read()
            if q is None:
                break
            got.append(q)
        if kind in ("adversarial", "random"):
            # whatever is queued must at least be CRC/length consistent per the reference
            for q in got:
                if kind == "adversarial":
                    d = ble_ref.phone_decode(b"\x71\x91\x7d\x6b", pl, CH[case["chan"]])
                    raw_seen = b"".join(bytes(x) for x in q.data if isinstance(x, (bytes, bytearray)))
                    if not d["ok"] or bytes(q.mac) != mac or (d["ok"] and len(raw_seen) > len(d["ad_raw"]) + 2):
                        ctx.violation("adversarial-packet-queued-as-garbage", "queued element mac %s with %d raw "
                                      "bytes; reference: ok=%s AD area %d bytes (length byte 0x%02X)"
                                      % (bytes(q.mac).hex(), len(raw_seen), d["ok"], len(d.get("ad_raw", b"")),
                                         lo if isinstance(lo, int) else -1), case)
                        return
            ctx.nontrivial((kind, case["chan"], len(got)))
            ctx.sample({"kind": kind, "queued": len(got)})
            return
        ctx.clause("valid_decoded_equal")
        if len(got) != len(expected):
            ctx.violation("valid-packet-count/%s" % kind, "%d valid packets were received, %d elements "
                          "queued" % (len(expected), len(got)), case)
            return
        ctx.clause("read_order")
        for q, (emac, ename, epa, edescr) in zip(got, expected):
            qname = q.name if isinstance(q.name, (str, type(None))) else bytes(q.name)
            if bytes(q.mac) != emac or qname != ename or q.pa_level != epa:
                ctx.violation("element-header-fields", "queued element mac %s name %r pa %r, advertised "
                              "mac %s name %r pa %r" % (bytes(q.mac).hex(), q.name, q.pa_level, emac.hex(), ename, epa), case)
                return
            gd = [x for x in describe(q) if not (x[0] == "raw" and x[1] == b"\x02\x01\x05")]
            if not compare_services(ctx, case, gd, edescr):
                return
        ctx.nontrivial((kind, case["svc"], repr(case["name"]), case.get("name_type"), case["pa"], case["chan"], len(expected)))
        ctx.sample({"kind": kind, "svc": case["svc"], "queued": len(got),
                    "first": repr(describe(got[0]))[:120] if got else None})
    finally:
        rig.close()


def compare_services(ctx, case, got, exp):
    if len(got) != len(exp):
        ctx.violation("service-count", "decoded %r, advertised %r" % (got, exp), case)
        return False
    for g, e in zip(got, exp):
        ctx.clause("service_values")
        ok = True
        if e[0] == "battery":
            ok = g[0] == "BatteryServiceData" and g[1] == e[1]
        elif e[0] == "temperature":
            ok = g[0] == "TemperatureServiceData" and isinstance(g[1], float) and round(g[1] * 100) == e[1]
        elif e[0] == "url":
            ok = g[0] == "UrlServiceData" and g[1] == e[1] and g[2] == e[2]
        elif e[0] == "raw":
            ok = g[0] == "raw" and g[1][2:] == e[1]
        if not ok:
            ctx.violation("service-value/%s" % e[0], "advertised %r, decoded %r" % (e, g), case)
            return False
    return True


def build_lib_services(F, case, rng, j, free):
    svc = case["svc"]
    out, descr = [], []

    def add(kind):
        if kind == "battery":
            s = F.BatteryServiceData()
            s.data = (case["batt"] + j) & 0xFF
            out.append(s)
            descr.append(("battery", (case["batt"] + j) & 0xFF))
        elif kind == "temperature":
            s = F.TemperatureServiceData()
            t = temp_of(case, j)
            s.data = t / 100
            out.append(s)
            descr.append(("temperature", t))
        elif kind == "url":
            s = F.UrlServiceData()
            txp = [case["txp"], -7, 33, -128][j % 4]  # differs from packet to packet
            s.pa_level_at_1_meter = txp
            s.data = case["url"]
            out.append(s)
            descr.append(("url", case["url"], txp))
        elif kind == "raw":
            d = bytes(rng.getrandbits(8) for _ in range(case["raw_len"]))
            out.append(d)
            descr.append(("raw", d))
    if svc == "two":
        add("battery")
        add("temperature")
    elif svc != "none":
        add(svc)
    return out, descr


def temp_of(case, j):
    """the temperature of a session's j-th packet: the sign alternates from packet to packet"""
    t = case["temp"]
    return t if j % 2 == 0 else max(-30000, min(30000, -t - 1))


def build_ref_services(case, rng, j):
    svc = case["svc"]
    ads, descr = [], []

    def add(kind):
        if kind == "battery":
            ads.append(ble_ref.battery_ad((case["batt"] + j) & 0xFF))
            descr.append(("battery", (case["batt"] + j) & 0xFF))
        elif kind == "temperature":
            ads.append(ble_ref.temperature_ad(temp_of(case, j)))
            descr.append(("temperature", temp_of(case, j)))
        elif kind == "url":
            txp = [case["txp"], -7, 33, -128][j % 4]
            ads.append(ble_ref.url_ad(case["url"], txp))
            descr.append(("url", case["url"], txp))
        elif kind == "raw":
            d = bytes(rng.getrandbits(8) for _ in range(case["raw_len"]))
            ads.append((0xFF, d))
            descr.append(("raw", d))
    if svc == "two":
        add("battery")
        add("temperature")
    elif svc != "none":
        add(svc)
    return ads, descr


def adversarial_area(rng):
    items = []
    for _ in range(rng.randrange(1, 4)):
        r = rng.random()
        if r < 0.2:
            items.append((0, 0x16, b""))  # length 0
        elif r < 0.4:
            items.append((rng.randrange(10, 40), 0x16, bytes(rng.getrandbits(8) for _ in range(3))))  # past the end
        elif r < 0.7:
            n = rng.randrange(0, 3)  # service data with 0..2 bytes (fewer than a UUID / no value)
            items.append((1 + n, 0x16, bytes(rng.choice([0x09, 0x18, 0x0F, 0xAA, 0xFE]) for _ in range(n))))
        elif r < 0.8:
            items.append((1, rng.choice([0x0A, 0x08, 0x09, 0xFF]), b""))
        elif r < 0.9:
            items.append((3, 0x16, bytes([rng.choice([0x09, 0x0F, 0xAA]), rng.choice([0x18, 0xFE])])))
        else:
            d = bytes(rng.getrandbits(8) for _ in range(rng.randrange(0, 6)))
            items.append((1 + len(d), rng.getrandbits(8), d))
    return ble_ref.raw_ad(*items)


def run_sweep(ctx, case, rig, F, rng):
    rr, rx = mk_rx(rig, F, case["chan"])
    chidx = 37 + case["chan"]
    mac = b"\x01\x02\x03\x04\x05\x06"
    if case["kind"] == "temp_sweep":
        t = case["temp"]
        # (1) library encoder -> reference decoder of the encoding; (2) reference -> library decode
        s = F.TemperatureServiceData()
        s.data = t / 100
        enc = bytes(s.buffer)
        want = bytes(ble_ref.temperature_ad(t)[1])
        ctx.clause("service_values")
        if enc != want:
            ctx.violation("service-encode/temperature", "TemperatureServiceData for %.2f encodes as %s, "
                          "IEEE-11073 (mantissa %d, exponent -2) is %s" % (t / 100, enc.hex(), t, want.hex()),
                          case)
            return
        rr.inject_rx(0, ble_ref.encode(mac, [(1, b"\x05"), ble_ref.temperature_ad(t)], chidx))
        exp = [("temperature", t)]
    else:
        b = case["batt"]
        rr.inject_rx(0, ble_ref.encode(mac, [(1, b"\x05"), ble_ref.battery_ad(b)], chidx))
        exp = [("battery", b)]
    ctx.clause("available_never_raises")
    try:
        rx.available()
    except Exception as e:  # noqa: BLE001
        ctx.violation("available-raises/sweep/%s" % type(e).__name__, repr(e), case)
        return
    q = rx.read()
    ctx.clause("valid_decoded_equal")
    if q is None:
        ctx.violation("valid-packet-count/sweep", "reference packet %r was not queued" % (exp,), case)
        return
    gd = [x for x in describe(q) if not (x[0] == "raw" and x[1] == b"\x02\x01\x05")]
    if compare_services(ctx, case, gd, exp):
        ctx.nontrivial((case["kind"], exp[0][1]))
