"""C10 - FIFO and status accessors report the radio's true state.  DESIGN §4/C10.
The accessor part is also driven by C20 with the lite driver."""
import random

from vsim import world as W
from vsim.rig import Rig, repo

PROP = "C10"
RULE = ("random histories (depth 10..30) of traffic events (payloads arriving on any pipe by "
        "real transmission or FIFO injection, successful/failed/queued transmissions with "
        "k lost attempts, ACK payloads) interleaved with accessor calls, in dynamic, static "
        "and mixed per-pipe length modes and all 8 IRQ masks; after every accessor call its "
        "result and side effects are compared with the simulator's FIFOs/STATUS/OBSERVE_TX/IRQ "
        "line (status-derived attributes against the STATUS byte actually shifted out, A2). "
        "Non-trivial: a non-empty FIFO or latched flag was visited; distinct = distinct "
        "(mode, op history with lengths/pipes).")
RULE += (" Later rounds added: pipe/irq_dr straight after read() must equal the radio's STATUS; the retry configuration changed after a transmission. The role / power getters read here and there between the other calls.")
REQUIRED = {"read_leaves_fresh_status": 100, "status_attrs": 3000, "available": 300, "any": 300, "fifo": 1000, "read": 300,
            "clear_flags": 200, "flush": 200, "last_tx_arc": 100, "irq_line": 3000}
BUDGET = {"quick": 480, "thorough": 900}

ADDR = [b"\xA0\x11\x22\x33\x44", b"\xB1\x55\x66\x77\x88", b"\xB2", b"\xB3", b"\xB4", b"\xB5"]


def gen_cases(ctx, kind="full"):
    rng = ctx.sub_rng("c10", kind)
    n = 2500 if ctx.tier == "quick" else 300000
    for i in range(n):
        mode = rng.choice(["dynamic", "static", "mixed"]) if kind == "full" else rng.choice(
            ["dynamic", "static"])
        case = {"mode": mode, "seed": rng.getrandbits(30), "kind": kind,
                "static_len": [rng.randrange(1, 33) for _ in range(6)],
                "dyn_mask": rng.randrange(1, 0x3F) if mode == "mixed" else (0x3F if mode == "dynamic" else 0),
                "ops": []}
        if kind == "lite":
            case["static_len"] = [case["static_len"][0]] * 6
        depth = rng.randrange(10, 31)
        for _ in range(depth):
            r = rng.random()
            if r < 0.22:
                case["ops"].append(["inject", rng.randrange(6), rng.randrange(1, 33)])
            elif r < 0.27:
                case["ops"].append(["rx_real", rng.randrange(6), rng.randrange(1, 33)])
            elif r < 0.36:
                case["ops"].append(["tx", rng.choice([0, 0, 1, 2, 3, 4]), rng.randrange(1, 33)])
            elif r < 0.41:
                case["ops"].append(["load", rng.randrange(1, 33)])
            elif r < 0.44 and kind == "full":
                case["ops"].append(["irqcfg", rng.randrange(2), rng.randrange(2), rng.randrange(2)])
            elif r < 0.47:
                case["ops"].append(["ackpl", rng.randrange(6), rng.randrange(1, 33)])
            elif r < 0.51:
                # the retry configuration is changed after a transmission: what the radio counted
                # for the LAST packet does not change with it
                case["ops"].append(["arc", rng.choice([0, 0, 1, 2, 15])])
            else:
                case["ops"].append(rng.choice([
                    ["update"], ["available"], ["pipe"], ["any"], ["tx_full"], ["irq"],
                    ["fifo", 0, None], ["fifo", 1, None], ["fifo", 0, True], ["fifo", 0, False],
                    ["fifo", 1, True], ["fifo", 1, False], ["read"], ["read"], ["read_n"],
                    ["clear", rng.randrange(2), rng.randrange(2), rng.randrange(2)],
                    ["flush_rx"], ["flush_tx"], ["last_tx_arc"]]))
        if kind == "full":
            rb = ctx.sub_rng("c10b", i)
            # static lengths set pipe by pipe through the function form, some of them outside 1..32
            # (documented: clamped) - what the accessors report is what the radio holds
            if mode in ("static", "mixed") and rb.random() < 0.3:
                raw = list(case["static_len"])
                for _ in range(rb.choice([1, 2])):
                    raw[rb.randrange(6)] = rb.choice([33, 40, 255, 0, 64])
                case["pl_raw"] = raw
                case["static_len"] = [max(1, min(32, x)) for x in raw]
            # other settings of the link assigned between the accessor calls (CRC length on both ends,
            # channel, power amplifier): the FIFO/status accessors and the IRQ mask are not their business
            for _ in range(rb.choice([0, 0, 1, 2, 3])):
                case["ops"].insert(rb.randrange(len(case["ops"]) + 1),
                                   rb.choice([["linkcfg", "crc", 1], ["linkcfg", "crc", 2], ["linkcfg", "channel", 76],
                                              ["linkcfg", "channel", 5], ["linkcfg", "pa_level", -12],
                                              ["linkcfg", "address_length", 5]]))
        # the application asks the driver what role / power state it is in, here and there
        for q in range(len(case["ops"]), -1, -1):
            if (q * 5 + case["seed"]) % 7 == 0:
                case["ops"].insert(q, ["role_query"])
        yield case


def run_case(ctx, case, prefix=""):
    m = repo()
    kind = case.get("kind", "full")
    rig = Rig(seed=case["seed"])
    try:
        rd, rp = rig.radio("dut"), rig.radio("peer")
        cls = m["rf24"].RF24 if kind == "full" else m["rf24_lite"].RF24
        dut = rig.driver(rd, cls=cls, flavour="bus" if kind == "lite" else "pin")
        peer = rig.driver(rp)
        _run(ctx, case, rig, rd, rp, dut, peer, prefix, kind)
    finally:
        rig.close()


def _decode(st):
    p = (st >> 1) & 7
    return {"tx_full": bool(st & 1), "pipe": p if p < 6 else None, "irq_dr": bool(st & 0x40),
            "irq_ds": bool(st & 0x20), "irq_df": bool(st & 0x10)}


def _run(ctx, case, rig, rd, rp, dut, peer, prefix, kind):
    node = rig.node
    prng = random.Random(case["seed"])
    rng_arc = [case["seed"] & 1]
    mode = case["mode"]
    sl = case["static_len"]
    if kind == "full":
        if mode == "static":
            dut.dynamic_payloads = False
            dut.payload_length = list(sl)
        elif mode == "mixed":
            dut.dynamic_payloads = case["dyn_mask"]
            dut.payload_length = list(sl)
        if case.get("pl_raw"):
            for i_, v_ in enumerate(case["pl_raw"]):
                dut.set_payload_length(v_, i_)
            ctx.clause("static_lengths_set_per_pipe_incl_out_of_range")
        dut.arc = 3
        dut.ard = 500
    else:
        if mode == "static":
            dut.dynamic_payloads = False
            dut.payload_length = sl[0]
        dut.arc = 3
        dut.ard = 500
    dynmask = case["dyn_mask"]
    for i in range(6):
        dut.open_rx_pipe(i, ADDR[i])
    peer.open_rx_pipe(1, b"\xD1\x01\x02\x03\x04")
    peer.listen = True
    dut.open_tx_pipe(b"\xD1\x01\x02\x03\x04")
    if mode == "static":
        peer.dynamic_payloads = False
        peer.payload_length = sl[0]
    mask = [True, True, True]
    visited = False
    hist = []
    lost = {"n": 0}

    def fault(pkt, rx):
        if pkt.kind == "data" and pkt.src is rd and lost["n"] > 0:
            lost["n"] -= 1
            return True
        return False
    rig.air.fault = fault

    def plen(pipe, n):
        return n if dynmask & (1 << pipe) else sl[pipe]

    def viol(key, msg):
        ctx.violation(prefix + key, "%s (mode=%s history=%r)" % (msg, mode, hist[-12:]), case)

    def check_status_attrs(where):
        st = _decode(rd.last_status_out)
        ctx.clause("status_attrs")
        got = {"tx_full": dut.tx_full, "pipe": dut.pipe, "irq_dr": dut.irq_dr,
               "irq_ds": dut.irq_ds, "irq_df": dut.irq_df}
        if got != st:
            bad = [k for k in got if got[k] != st[k]]
            viol("status-attr:" + bad[0], "after %s: %s=%r but the STATUS byte shifted out was "
                 "0x%02X (%r)" % (where, bad[0], got[bad[0]], rd.last_status_out, st[bad[0]]))
            return False
        return True

    def check_irq(where):
        ctx.clause("irq_line")
        f = rd.flags
        exp = not ((f & 0x40 and mask[0]) or (f & 0x20 and mask[1]) or (f & 0x10 and mask[2]))
        if rd.irq_level() != exp:
            viol("irq-line", "after %s: IRQ pin %s, flags 0x%02X, enabled events %r"
                 % (where, "high" if rd.irq_level() else "low", f, mask))
            return False
        return True

    for op in case["ops"]:
        hist.append(op)
        name = op[0]
        if rd.rx_fifo or rd.tx_fifo or rd.flags:
            visited = True
        if name == "inject":
            rd.inject_rx(op[1], bytes(prng.getrandbits(8) for _ in range(plen(op[1], op[2]))))
            continue
        if name == "rx_real":
            pipe = op[1]
            n = plen(pipe, op[2])
            dut.listen = True
            node.idle(300000)
            peer.listen = False
            full = ADDR[pipe] if pipe < 2 else ADDR[pipe] + ADDR[1][1:]
            peer.open_tx_pipe(full)
            if not dynmask & (1 << pipe):
                peer.dynamic_payloads = False
                peer.payload_length = n
            else:
                peer.dynamic_payloads = True
            before = len(rd.rx_fifo)
            ok = peer.send(bytes(prng.getrandbits(8) for _ in range(n)))
            if before < 3 and (not ok or len(rd.rx_fifo) != before + 1):
                ctx.count("rx_real_not_delivered")
            peer.open_rx_pipe(1, b"\xD1\x01\x02\x03\x04")
            if mode == "static":
                peer.dynamic_payloads = False
                peer.payload_length = sl[0]
            else:
                peer.dynamic_payloads = True
            peer.listen = True
            continue
        if name == "linkcfg":
            for _ in range(100):
                if rd.act is None:
                    break
                node.idle(200000)
            setattr(dut, op[1], op[2])
            setattr(peer, op[1], op[2])
            ctx.clause("link_setting_assigned_between_accessor_calls")
            if not check_irq("%s = %r" % (op[1], op[2])):
                return
            continue
        if name == "arc":
            if rng_arc[0] % 2 and kind == "full":
                dut.set_auto_retries(dut.ard, op[1])
            else:
                dut.arc = op[1]
            rng_arc[0] += 1
            if kind == "full":
                ctx.clause("last_tx_arc")
                r = dut.last_tx_arc
                if r != rd.arc_cnt:
                    viol("last_tx_arc", "last_tx_arc=%r after arc was set to %d, radio ARC_CNT=%d" % (r, op[1], rd.arc_cnt))
                    return
            continue
        if name == "tx":
            dut.listen = False
            dut.arc = 3  # harness: the loss plans below assume three automatic retries
            dut.flush_tx()  # harness: queued write_only payloads would be sent first
            dut.open_tx_pipe(b"\xD1\x01\x02\x03\x04")  # pipe 0 is also a reading pipe here
            peer.flush_rx()
            peer.dynamic_payloads = bool(dynmask & 1)
            peer.payload_length = sl[0]
            lost["n"] = op[1]
            buf = bytes(prng.getrandbits(8) for _ in range(op[2]))
            res = dut.send(buf, send_only=True)
            lost["n"] = 0
            ctx.clause("last_tx_arc")
            want_ok = op[1] <= 3
            if bool(res) != want_ok:
                ctx.cross_obs("C02", "send-result", "send with %d lost attempts returned %r" % (op[1], res))
            got = dut.last_tx_arc if kind == "full" else rd.arc_cnt
            if got != rd.arc_cnt or (got != min(op[1], 3)):
                viol("last_tx_arc", "last_tx_arc=%r after a transmission with %d lost attempts "
                     "(radio ARC_CNT=%d)" % (got, op[1], rd.arc_cnt))
                return
            if not check_irq("tx") or not check_status_attrs("send"):
                return
            continue
        if name == "load":
            dut.listen = False
            rd.set_ce(False) if False else None
            dut.ce_pin = False
            n0 = len(rd.tx_fifo)
            blocked = bool(rd.flags & 0x10)
            r = dut.write(bytes(prng.getrandbits(8) for _ in range(op[1])), write_only=True)
            if r != (n0 < 3):
                viol("write-result", "write(write_only=True) returned %r with %d payloads "
                     "queued before" % (r, n0))
                return
            continue
        if name == "ackpl":
            dut.listen = True  # ACK payloads belong to the receiving role
            try:
                dut.load_ack(bytes(prng.getrandbits(8) for _ in range(min(op[2], 31 if kind == "lite" else 32))), op[1])
            except Exception as e:  # noqa: BLE001
                viol("load_ack-exception", repr(e))
                return
            dynmask = (dynmask | 1) if kind == "full" else 0x3F
            continue
        if name == "role_query":
            (getattr(dut, "power", None), dut.listen)
            if not check_irq("reading power/listen"):
                return
        if name == "irqcfg":
            dut.interrupt_config(bool(op[1]), bool(op[2]), bool(op[3]))
            mask = [bool(op[1]), bool(op[2]), bool(op[3])]
            if not check_irq("interrupt_config%r" % (tuple(op[1:]),)):
                return
            continue
        # ---- accessors: judged on a quiescent radio (no transmission in progress)
        if not rd.r[0] & 1 and rd.ce:
            dut.ce_pin = False
        for _ in range(100):
            if rd.act is None:
                break
            node.idle(200000)
        rx0 = list(rd.rx_fifo)
        tx0 = len(rd.tx_fifo)
        f0 = rd.flags
        if name == "update":
            r = dut.update()
            if r is not True or rd.last_status_out != rd.status():
                viol("update", "update() returned %r" % (r,))
                return
        elif name == "available":
            ctx.clause("available")
            r = dut.available()
            if r != bool(rx0):
                viol("available", "available()=%r with %d payloads in the RX FIFO" % (r, len(rx0)))
                return
        elif name == "pipe":
            dut.update()
            r = dut.pipe
            exp = rx0[0][0] if rx0 else None
            if r != exp:
                viol("pipe", "pipe=%r, head payload is on %r" % (r, exp))
                return
        elif name == "any":
            ctx.clause("any")
            r = dut.any()
            exp = len(rx0[0][1]) if rx0 else 0
            if r != exp:
                viol("any", "any()=%r, head payload on pipe %s has %d bytes"
                     % (r, rx0[0][0] if rx0 else None, exp))
                return
        elif name == "tx_full":
            dut.update()
            if dut.tx_full != (tx0 >= 3):
                viol("tx_full", "tx_full=%r with %d payloads in the TX FIFO" % (dut.tx_full, tx0))
                return
        elif name == "irq":
            dut.update()
            got = (dut.irq_dr, dut.irq_ds, dut.irq_df)
            exp = (bool(f0 & 0x40), bool(f0 & 0x20), bool(f0 & 0x10))
            if got != exp:
                viol("irq-flags", "irq_dr/ds/df=%r, radio latched %r" % (got, exp))
                return
        elif name == "fifo":
            ctx.clause("fifo")
            about_tx, chk = bool(op[1]), op[2]
            r = dut.fifo(about_tx, chk)
            cnt = tx0 if about_tx else len(rx0)
            if chk is None:
                exp = ((cnt >= 3) << 1) | (cnt == 0)
            elif chk:
                exp = cnt == 0
            else:
                exp = cnt >= 3
            if r != exp or (chk is not None and not isinstance(r, bool)):
                viol("fifo", "fifo(%r, %r)=%r with %d payloads queued, expected %r"
                     % (about_tx, chk, r, cnt, exp))
                return
        elif name in ("read", "read_n"):
            ctx.clause("read")
            if name == "read_n" and rx0:
                k = prng.choice([1, len(rx0[0][1]), len(rx0[0][1]) + 2, 40])
                r = dut.read(k)
                stream = b"".join(d for _, d in rx0)
                npop = 0
                tot = 0
                for _, d in rx0:
                    if tot + len(d) <= k:
                        tot += len(d)
                        npop += 1
                    else:
                        break
                exp = stream[:k]
                if len(exp) < k:
                    exp = exp + exp[-1:] * (k - len(exp))
            else:
                r = dut.read()
                exp = rx0[0][1] if rx0 else None
                npop = 1 if rx0 else 0
            got = bytes(r) if r is not None else None
            if got != exp:
                viol("read-bytes", "%s returned %r, head payload(s) %r"
                     % (name, got.hex() if got else got, [d.hex() for _, d in rx0][:2]))
                return
            if len(rd.rx_fifo) != len(rx0) - npop or list(rd.rx_fifo) != rx0[npop:]:
                viol("read-pop", "%s removed %d payloads, expected %d"
                     % (name, len(rx0) - len(rd.rx_fifo), npop))
                return
            if rx0 and (rd.flags != (f0 & ~0x40)) or (not rx0 and rd.flags != f0):
                viol("read-flags", "%s changed flags 0x%02X -> 0x%02X" % (name, f0, rd.flags))
                return
            if len(rd.tx_fifo) != tx0:
                viol("read-tx-fifo", "read() changed the TX FIFO")
                return
            if npop and name == "read":
                # read() ends with a transaction of its own: on a quiescent radio the attributes
                # it leaves behind describe the state AFTER the pop (next payload's pipe)
                ctx.clause("read_leaves_fresh_status")
                exp_pipe = rd.rx_fifo[0][0] if rd.rx_fifo else None
                if dut.pipe != exp_pipe:
                    viol("read-stale-status", "after read() pipe=%r, the next payload is on %r"
                         % (dut.pipe, exp_pipe))
                    return
        elif name == "clear":
            ctx.clause("clear_flags")
            a, b, c = bool(op[1]), bool(op[2]), bool(op[3])
            dut.clear_status_flags(a, b, c)
            exp = f0 & ~((a << 6) | (b << 5) | (c << 4))
            # clearing MAX_RT with CE high legitimately restarts a pending transmission
            if rd.flags != exp and not (f0 & 0x10 and c and rd.ce):
                viol("clear_status_flags", "clear_status_flags(%r,%r,%r): flags 0x%02X -> "
                     "0x%02X, expected 0x%02X" % (a, b, c, f0, rd.flags, exp))
                return
            if list(rd.rx_fifo) != rx0:
                viol("clear-touches-fifo", "clear_status_flags changed the RX FIFO")
                return
        elif name == "flush_rx":
            ctx.clause("flush")
            dut.flush_rx()
            if rd.rx_fifo or len(rd.tx_fifo) != tx0 or rd.flags != f0:
                viol("flush_rx", "flush_rx(): rx=%d tx %d->%d flags 0x%02X->0x%02X"
                     % (len(rd.rx_fifo), tx0, len(rd.tx_fifo), f0, rd.flags))
                return
        elif name == "flush_tx":
            ctx.clause("flush")
            dut.flush_tx()
            if rd.tx_fifo or list(rd.rx_fifo) != rx0 or rd.flags != f0:
                viol("flush_tx", "flush_tx(): tx=%d rx %d->%d flags 0x%02X->0x%02X"
                     % (len(rd.tx_fifo), len(rx0), len(rd.rx_fifo), f0, rd.flags))
                return
        elif name == "last_tx_arc":
            ctx.clause("last_tx_arc")
            if kind != "full":
                continue  # documented reduction: removed from rf24_lite
            r = dut.last_tx_arc
            if r != rd.arc_cnt:
                viol("last_tx_arc", "last_tx_arc=%r, radio ARC_CNT=%d" % (r, rd.arc_cnt))
                return
        if not check_status_attrs(name) or not check_irq(name):
            return
        if rd.san:
            viol("sanitizer:" + rd.san[0][0], rd.san[0][1])
            return
    if visited:
        ctx.nontrivial((kind, mode, case["dyn_mask"], repr(case["ops"])))
    ctx.sample({"mode": mode, "ops": case["ops"][:10], "spi_commands": rd.n_cmds,
                "states_visited": len(rd.states)})
    ctx.count("radio_states_visited", len(rd.states))
